----------------------------- MODULE SegtreeGen -----------------------------
(***************************************************************************)
(* MC + spec -> implementation for C01/C02.  One construction followed by  *)
(* up to Depth operations on a tree of size n in Sizes, for one algebra    *)
(* per run (AlgName).  The invariants are checked in every reachable       *)
(* (B)-state; in addition every distinct state is emitted once with a      *)
(* history reaching it and the complete table of answers (A) demands.      *)
(***************************************************************************)
EXTENDS SegtreeImpl, TraceLib

CONSTANTS AlgName, Sizes, Depth, Scalars, UseJunk

TheAlg ==
    CASE AlgName = "hashaff" -> A("hashaff")
      [] AlgName = "hashflip" -> A("hashaff")   \* the same summaries under ONE modifier, negation: a zero-sized modifier type in the code
      [] AlgName = "min" -> A("min")
      [] AlgName = "max" -> A("max")
      [] AlgName = "sum" -> A("sum")
      [] AlgName = "minadd" -> A("minadd")
      [] AlgName = "maxadd" -> A("maxadd")
      [] AlgName = "sumadd" -> A("sumadd")
      [] AlgName = "pair_minadd_maxadd" -> Pair(A("minadd"), A("maxadd"))
      [] AlgName = "pair_pair_min_max_sum" -> Pair(Pair(A("min"), A("max")), A("sum"))
      [] AlgName = "pair_hashaff_sumaff" -> Pair(A("hashaff"), A("sumaff"))

\* modifiers offered: non-commuting affine maps (add 1, assign 2, double) / addends / the unit modifier
Mods ==
    CASE AlgName = "hashflip" -> {<<Q - 1, 0>>}
      [] ModKind(TheAlg) = "aff" -> {<<1, 1>>, <<0, 2>>, <<2, 0>>}
      [] ModKind(TheAlg) = "add" -> {-1, 2}
      [] ModKind(TheAlg) = "none" -> {0}

P(p, k, path) == [p |-> p, k |-> k, path |-> path]
Preds ==
    {P("true", 0, <<>>), P("false", 0, <<>>)} \cup
    (CASE AlgName \in {"hashaff", "hashflip"} -> {P("lenge", k, <<>>) : k \in {2, 3}}
       [] AlgName = "min" -> {P("minle", k, <<>>) : k \in {0, 1}}
       [] AlgName = "max" -> {P("maxge", k, <<>>) : k \in {1, 2}}
       [] AlgName = "sum" -> {P("sumge", k, <<>>) : k \in {1, 3}}
       [] AlgName = "minadd" -> {P("minle", k, <<>>) : k \in {0, 1}}
       [] AlgName = "maxadd" -> {P("maxge", k, <<>>) : k \in {1, 3}}
       [] AlgName = "sumadd" -> {P("vsumge", k, <<>>) : k \in {1, 3}} \cup {P("lenge", 2, <<>>)}
       [] AlgName = "pair_minadd_maxadd" -> {P("minle", 0, <<1>>), P("maxge", 2, <<2>>)}
       [] AlgName = "pair_pair_min_max_sum" -> {P("minle", 0, <<1, 1>>), P("maxge", 2, <<1, 2>>), P("sumge", 2, <<2>>)}
       [] AlgName = "pair_hashaff_sumaff" -> {P("vsumge", 3, <<2>>), P("lenge", 2, <<1>>), P("lenge", 3, <<2>>)})

VARIABLE hist
gvars == <<alg, n, arr, data, hist>>
View == <<alg, n, arr, data, Len(hist)>>

RECURSIVE SeqsOver(_, _)
SeqsOver(S, k) == IF k = 0 THEN {<<>>} ELSE {Append(s, c) : s \in SeqsOver(S, k - 1), c \in S}

Op(name, a, b, m) == [op |-> name, a |-> a, b |-> b, m |-> m, j |-> 0]
OpJ(name, a, b, m, jk) == [op |-> name, a |-> a, b |-> b, m |-> m, j |-> jk]

\* whether the items handed to the constructors / set carry a junk pending field (only meaningful with modifiers)
Junk == IF ModKind(TheAlg) = "none" \/ ~UseJunk THEN {0} ELSE {0, 1}

GInit ==
    /\ alg = TheAlg
    /\ \/ \E k \in Sizes, c \in Scalars, jk \in Junk :
              n = k /\ arr = ArrNew(TheAlg, k, c) /\ data = DataNew(TheAlg, k, c, jk) /\ hist = <<OpJ("new", k, c, 0, jk)>>
       \/ \E k \in Sizes : \E cs \in SeqsOver(Scalars, k), how \in {"slice", "iter"}, jk \in Junk :
              n = k /\ arr = ArrFromSeq(TheAlg, cs) /\ data = DataFromSeq(TheAlg, cs, how, jk) /\ hist = <<OpJ(how, 0, 0, cs, jk)>>

Go == Len(hist) <= Depth

\* (a set with a junk-carrying item only writes a leaf: the junk value alternates with the position to keep the branching down)
DoSet    == Go /\ \E i \in Idx, c \in Scalars : LET jk == IF 1 \in Junk THEN i % 2 ELSE 0 IN
                  Set(i, c, jk) /\ hist' = Append(hist, OpJ("set", i, c, 0, jk))
DoModify == Go /\ \E l \in Idx : \E r \in l .. n - 1 : \E m \in Mods : Modify(l, r, m) /\ hist' = Append(hist, Op("modify", l, r, m))
DoAsk    == Go /\ \E l \in Idx : \E r \in l .. n - 1 : Ask(l, r) /\ hist' = Append(hist, Op("ask", l, r, 0))
DoLb     == Go /\ \E l \in Idx : \E p \in Preds : MonotoneFrom(l, p) /\ Lb(l, p) /\ hist' = Append(hist, Op("lb", l, 0, p))
DoLbRev  == Go /\ \E r \in Idx : \E p \in Preds : MonotoneTo(r, p) /\ LbRev(r, p) /\ hist' = Append(hist, Op("lbrev", r, 0, p))
\* re-construction in the middle of a history (a smaller tree, so that the bounded search stays cheap)
DoRenew  == Go /\ \E c \in Scalars : LET k == IF n > 1 THEN n - 1 ELSE 2
                                     IN \E jk \in Junk : New(TheAlg, k, c, jk) /\ hist' = Append(hist, OpJ("new", k, c, 0, jk))

GNext == DoSet \/ DoModify \/ DoAsk \/ DoLb \/ DoLbRev \/ DoRenew


GSpec == GInit /\ [][GNext]_gvars

RefinesAll == Refines(Preds)

\* the predicates in a fixed order, so that the tables can refer to them by index
PredSeq == CHOOSE s \in [1 .. Cardinality(Preds) -> Preds] : \A i, j \in 1 .. Cardinality(Preds) : i # j => s[i] # s[j]

\* lb[l][i] / lbrev[r][i]: expected result for predicate i, or -2 where that predicate is not monotone
\* from this position (outside the property's quantifier, not to be asked)
EmitState ==
    Emit([alg |-> AlgName, hist |-> hist, n |-> n, preds |-> PredSeq,
          ask |-> [l \in 1 .. n |-> [r \in 1 .. n |-> IF l <= r THEN AskResult(l - 1, r - 1) ELSE 0]],
          lb |-> [l \in 1 .. n |-> [i \in 1 .. Len(PredSeq) |->
                     IF MonotoneFrom(l - 1, PredSeq[i]) THEN LowerBound(l - 1, PredSeq[i]) ELSE -2]],
          lbrev |-> [r \in 1 .. n |-> [i \in 1 .. Len(PredSeq) |->
                     IF MonotoneTo(r - 1, PredSeq[i]) THEN LowerBoundRev(r - 1, PredSeq[i]) ELSE -2]]])
=============================================================================
