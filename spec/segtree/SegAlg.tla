------------------------------- MODULE SegAlg -------------------------------
(***************************************************************************)
(* Item algebras for the segment tree (C01, C02).  The property quantifies *)
(* over every lawful item type; the specification is parameterised by an   *)
(* algebra value                                                           *)
(*                                                                         *)
(*     [t |-> "min" | "max" | "sum"]                  no modifier (M = ()) *)
(*     [t |-> "minadd" | "maxadd" | "sumadd"]         modifier = addend    *)
(*     [t |-> "hashaff"], [t |-> "sumaff"]            modifier = affine map*)
(*     [t |-> "pair", a |-> alg, b |-> alg]           the Combinator       *)
(*                                                                         *)
(* hashaff is the discriminating one: summaries are <<h, len>>, a          *)
(* polynomial string hash over Z_Q with base X, so merge is NOT            *)
(* commutative; modifiers are affine maps c |-> a*c + b applied to every   *)
(* character, which do NOT commute (assign = <<0,b>>, add = <<1,b>>).      *)
(* sumaff is the sum under the same affine maps (so that the Combinator    *)
(* can pair it with hashaff: both components receive the same modifier).   *)
(*                                                                         *)
(* Summaries are integers or tuples (never records), so ToJson renders     *)
(* them as numbers / arrays.                                               *)
(***************************************************************************)
EXTENDS Integers, Sequences

Q == 5      \* modulus of the hash
X == 2      \* base of the hash
BIG == 1000000   \* stand-in for T::MAX / T::MIN of the built-in items (never observable)

A(t) == [t |-> t]
Pair(a, b) == [t |-> "pair", a |-> a, b |-> b]

RECURSIVE XPow(_)
XPow(k) == IF k = 0 THEN 1 ELSE (X * XPow(k - 1)) % Q
RECURSIVE G(_)
\* 1 + X + ... + X^(len-1)  (hash of the all-ones string of that length)
G(len) == IF len = 0 THEN 0 ELSE (G(len - 1) * X + 1) % Q

RECURSIVE ModKind(_)
ModKind(alg) ==
    CASE alg.t \in {"min", "max", "sum"} -> "none"
      [] alg.t \in {"minadd", "maxadd", "sumadd"} -> "add"
      [] alg.t \in {"hashaff", "sumaff"} -> "aff"
      [] alg.t = "pair" -> ModKind(alg.a)

(* ---- the monoid of summaries --------------------------------------------- *)
RECURSIVE Ident(_)
Ident(alg) ==
    CASE alg.t \in {"min", "minadd"} -> BIG
      [] alg.t \in {"max", "maxadd"} -> -BIG
      [] alg.t = "sum" -> 0
      [] alg.t \in {"sumadd", "sumaff", "hashaff"} -> <<0, 0>>
      [] alg.t = "pair" -> <<Ident(alg.a), Ident(alg.b)>>

RECURSIVE Merge(_, _, _)
Merge(alg, x, y) ==
    CASE alg.t \in {"min", "minadd"} -> IF x < y THEN x ELSE y
      [] alg.t \in {"max", "maxadd"} -> IF x > y THEN x ELSE y
      [] alg.t = "sum" -> x + y
      [] alg.t \in {"sumadd", "sumaff"} -> <<x[1] + y[1], x[2] + y[2]>>
      [] alg.t = "hashaff" -> <<(x[1] * XPow(y[2]) + y[1]) % Q, x[2] + y[2]>>
      [] alg.t = "pair" -> <<Merge(alg.a, x[1], y[1]), Merge(alg.b, x[2], y[2])>>

\* summary of the single element built from scalar c (From<T> / ::new(c))
RECURSIVE Lift(_, _)
Lift(alg, c) ==
    CASE alg.t \in {"min", "max", "sum", "minadd", "maxadd"} -> c
      [] alg.t \in {"sumadd", "sumaff"} -> <<c, 1>>
      [] alg.t = "hashaff" -> <<c % Q, 1>>
      [] alg.t = "pair" -> <<Lift(alg.a, c), Lift(alg.b, c)>>

(* ---- the action of modifiers on summaries ----------------------------------- *)
\* "the modifier applied to each covered element individually" lifted to a summary of any length
RECURSIVE Apply(_, _, _)
Apply(alg, m, s) ==
    CASE alg.t \in {"min", "max", "sum"} -> s
      [] alg.t \in {"minadd", "maxadd"} -> s + m
      [] alg.t = "sumadd" -> <<s[1] + m * s[2], s[2]>>
      [] alg.t = "sumaff" -> <<m[1] * s[1] + m[2] * s[2], s[2]>>
      [] alg.t = "hashaff" -> <<(m[1] * s[1] + m[2] * G(s[2])) % Q, s[2]>>
      [] alg.t = "pair" -> <<Apply(alg.a, m, s[1]), Apply(alg.b, m, s[2])>>

\* pending-modifier bookkeeping of one non-pair item type: identity and composition (new after old)
IdMod(alg) ==
    CASE ModKind(alg) = "none" -> 0
      [] ModKind(alg) = "add" -> 0
      [] ModKind(alg) = "aff" -> <<1, 0>>
ComposeMod(alg, new, old) ==
    CASE ModKind(alg) = "none" -> 0
      [] ModKind(alg) = "add" -> old + new
      [] alg.t = "hashaff" -> <<(new[1] * old[1]) % Q, (new[1] * old[2] + new[2]) % Q>>
      [] alg.t = "sumaff" -> <<new[1] * old[1], new[1] * old[2] + new[2]>>

\* left-to-right fold of a sequence of summaries
RECURSIVE FoldSeq(_, _)
FoldSeq(alg, s) == IF Len(s) = 1 THEN s[1] ELSE Merge(alg, FoldSeq(alg, SubSeq(s, 1, Len(s) - 1)), s[Len(s)])

(* ---- items as the code stores them: summary + not-yet-pushed modifier -------- *)
\* non-pair item: <<summary, pending>>; Combinator item: <<item_a, item_b>>
RECURSIVE LeafItem(_, _)
LeafItem(alg, c) == IF alg.t = "pair" THEN <<LeafItem(alg.a, c), LeafItem(alg.b, c)>> ELSE <<Lift(alg, c), IdMod(alg)>>

\* An element handed to a constructor / set may carry a non-trivial pending-modifier field (items are plain structs
\* with public fields; a copy of a leaf read out of another tree has one).  It denotes the same element.
JunkMod(alg) == CASE ModKind(alg) = "add" -> 3 [] ModKind(alg) = "aff" -> <<2, 1>> [] OTHER -> 0
RECURSIVE LeafItemJ(_, _, _)
LeafItemJ(alg, c, j) ==
    IF alg.t = "pair" THEN <<LeafItemJ(alg.a, c, j), LeafItemJ(alg.b, c, j)>>
    ELSE <<Lift(alg, c), IF j = 1 THEN JunkMod(alg) ELSE IdMod(alg)>>

RECURSIVE DefaultItem(_)
DefaultItem(alg) == IF alg.t = "pair" THEN <<DefaultItem(alg.a), DefaultItem(alg.b)>> ELSE <<Ident(alg), IdMod(alg)>>

RECURSIVE SumOf(_, _)
\* the summary an item denotes (its public value fields)
SumOf(alg, it) == IF alg.t = "pair" THEN <<SumOf(alg.a, it[1]), SumOf(alg.b, it[2])>> ELSE it[1]

RECURSIVE MergeI(_, _, _)
\* SegtreeItem::merge: fresh item, nothing pending
MergeI(alg, x, y) ==
    IF alg.t = "pair" THEN <<MergeI(alg.a, x[1], y[1]), MergeI(alg.b, x[2], y[2])>>
    ELSE <<Merge(alg, x[1], y[1]), IdMod(alg)>>

RECURSIVE ModifyI(_, _, _)
\* SegtreeItem::modify: apply to the summary, remember for the children
ModifyI(alg, it, m) ==
    IF alg.t = "pair" THEN <<ModifyI(alg.a, it[1], m), ModifyI(alg.b, it[2], m)>>
    ELSE IF ModKind(alg) = "none" THEN it
    ELSE <<Apply(alg, m, it[1]), ComposeMod(alg, m, it[2])>>

RECURSIVE PushI(_, _, _, _)
\* SegtreeItem::push: returns <<item, left, right>>
PushI(alg, it, lf, rt) ==
    IF alg.t = "pair"
    THEN LET pa == PushI(alg.a, it[1], lf[1], rt[1])
             pb == PushI(alg.b, it[2], lf[2], rt[2])
         IN <<<<pa[1], pb[1]>>, <<pa[2], pb[2]>>, <<pa[3], pb[3]>>>>
    ELSE IF ModKind(alg) = "none" THEN <<it, lf, rt>>
    ELSE <<<<it[1], IdMod(alg)>>, ModifyI(alg, lf, it[2]), ModifyI(alg, rt, it[2])>>

(* ---- monotone predicates for the boundary searches (C02) --------------------- *)
\* [p |-> "true" | "false" | "lenge" | "sumge" | "vsumge" | "maxge" | "minle", k |-> threshold, path |-> <<1|2 ...>>]
\* path selects the component of nested pairs the predicate looks at
RECURSIVE Component(_, _)
Component(s, path) == IF path = <<>> THEN s ELSE Component(s[Head(path)], Tail(path))

Holds(pred, s) ==
    LET c == Component(s, pred.path)
    IN CASE pred.p = "true" -> TRUE
         [] pred.p = "false" -> FALSE
         [] pred.p = "lenge" -> c[2] >= pred.k          \* <<_, len>> summaries
         [] pred.p = "sumge" -> c >= pred.k               \* plain sum
         [] pred.p = "vsumge" -> c[1] >= pred.k           \* <<sum, len>> summaries
         [] pred.p = "maxge" -> c >= pred.k
         [] pred.p = "minle" -> c <= pred.k
=============================================================================
