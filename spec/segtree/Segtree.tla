------------------------------- MODULE Segtree -------------------------------
(***************************************************************************)
(* (A) Abstract specification of rlib_segtree::Segtree: a plain array      *)
(* `arr` of n element summaries.  A range modification applies the         *)
(* modifier to each covered element individually; a range query is the     *)
(* left-to-right merge of the covered elements; the boundary searches      *)
(* return the exact first / last index at which a monotone predicate of    *)
(* the range aggregate flips.                                              *)
(***************************************************************************)
EXTENDS SegAlg, FiniteSets

VARIABLES alg, n, arr
avars == <<alg, n, arr>>

Idx == 0 .. n - 1

\* aggregate of [l, r]
Fold(l, r) == FoldSeq(alg, [i \in 1 .. (r - l + 1) |-> arr[l + i - 1]])

\* constructions (usable as initial condition and, primed, as re-construction mid-history)
ArrNew(al, k, c)   == [i \in 0 .. k - 1 |-> Lift(al, c)]
ArrFromSeq(al, cs) == [i \in 0 .. Len(cs) - 1 |-> Lift(al, cs[i + 1])]
ANew(al, k, c)   == alg' = al /\ n' = k /\ arr' = ArrNew(al, k, c)
AFromSeq(al, cs) == alg' = al /\ n' = Len(cs) /\ arr' = ArrFromSeq(al, cs)
ASet(i, c)       == arr' = [arr EXCEPT ![i] = Lift(alg, c)] /\ UNCHANGED <<alg, n>>
AModify(l, r, m) == arr' = [i \in Idx |-> IF l <= i /\ i <= r THEN Apply(alg, m, arr[i]) ELSE arr[i]] /\ UNCHANGED <<alg, n>>
AQuery           == UNCHANGED avars

AskResult(l, r) == Fold(l, r)

NONE == -1
\* smallest r >= l with P(Fold(l, r)), or NONE
LowerBound(l, pred) ==
    LET S == {r \in l .. n - 1 : Holds(pred, Fold(l, r))}
    IN IF S = {} THEN NONE ELSE CHOOSE r \in S : \A q \in S : r <= q
\* largest l <= r with P(Fold(l, r)), or NONE
LowerBoundRev(r, pred) ==
    LET S == {l \in 0 .. r : Holds(pred, Fold(l, r))}
    IN IF S = {} THEN NONE ELSE CHOOSE l \in S : \A q \in S : l >= q

\* the property only speaks about predicates that are monotone along growing ranges
MonotoneFrom(l, pred) == \A r \in l .. n - 2 : Holds(pred, Fold(l, r)) => Holds(pred, Fold(l, r + 1))
MonotoneTo(r, pred)   == \A l \in 1 .. r : Holds(pred, Fold(l, r)) => Holds(pred, Fold(l - 1, r))

\* C02, second sentence: whatever is shown to the predicate is the in-order aggregate of [l, x] (resp. [x, r])
ArgsFrom(l) == {Fold(l, x) : x \in l .. n - 1}
ArgsTo(r)   == {Fold(x, r) : x \in 0 .. r}
=============================================================================
