----------------------------- MODULE SegtreeTrace -----------------------------
(***************************************************************************)
(* Implementation -> spec for C01/C02: traces recorded from the real       *)
(* Segtree (sizes 1..130 incl. 2^k-1, 2^k, 2^k+1, all ten algebras, long   *)
(* runs of modifications and of queries) are judged by the abstract        *)
(* specification (A) of module Segtree.                                    *)
(*                                                                         *)
(* events  reset{alg,how,n,c|cs}  set{i,c}  modify{l,r,m}                  *)
(*         ask{l,r,res}                                                    *)
(*         lb{pos,pred,res,seen} / lbrev{...}   seen = the aggregates the  *)
(*             predicate was called with; judged only when the predicate   *)
(*             is monotone from that position on the current contents      *)
(***************************************************************************)
EXTENDS Segtree, TraceLib

VARIABLE l
tvars == <<alg, n, arr, l>>

AlgOf(name) ==
    CASE name = "hashaff" -> A("hashaff")
      [] name = "hashflip" -> A("hashaff")
      [] name = "min" -> A("min")
      [] name = "max" -> A("max")
      [] name = "sum" -> A("sum")
      [] name = "minadd" -> A("minadd")
      [] name = "maxadd" -> A("maxadd")
      [] name = "sumadd" -> A("sumadd")
      [] name = "pair_minadd_maxadd" -> Pair(A("minadd"), A("maxadd"))
      [] name = "pair_pair_min_max_sum" -> Pair(Pair(A("min"), A("max")), A("sum"))
      [] name = "pair_hashaff_sumaff" -> Pair(A("hashaff"), A("sumaff"))

\* aggregates of [pos, pos], [pos, pos+1], ... [pos, n-1] computed incrementally (O(n) merges)
RECURSIVE FoldsFromRec(_, _, _)
FoldsFromRec(x, acc, out) ==
    IF x > n - 1 THEN out
    ELSE LET a == IF out = <<>> THEN arr[x] ELSE Merge(alg, acc, arr[x]) IN FoldsFromRec(x + 1, a, Append(out, a))
FoldsFrom(pos) == FoldsFromRec(pos, 0, <<>>)

\* aggregates of [pos, pos], [pos-1, pos], ... [0, pos]
RECURSIVE FoldsToRec(_, _, _)
FoldsToRec(x, acc, out) ==
    IF x < 0 THEN out
    ELSE LET a == IF out = <<>> THEN arr[x] ELSE Merge(alg, arr[x], acc) IN FoldsToRec(x - 1, a, Append(out, a))
FoldsTo(pos) == FoldsToRec(pos, 0, <<>>)

\* on a sequence of growing-range aggregates
MonotoneSeq(fs, pred) == \A i \in 1 .. Len(fs) - 1 : Holds(pred, fs[i]) => Holds(pred, fs[i + 1])
FirstHolds(fs, pred) ==
    LET S == {i \in 1 .. Len(fs) : Holds(pred, fs[i])}
    IN IF S = {} THEN 0 ELSE CHOOSE i \in S : \A j \in S : i <= j

InSeq(x, fs) == \E i \in 1 .. Len(fs) : fs[i] = x

Init == alg = A("sum") /\ n = 0 /\ arr = <<>> /\ l = 1

JudgeSearch(e, fs, toIndex(_)) ==
    LET i == FirstHolds(fs, e.pred)
        want == IF i = 0 THEN -1 ELSE toIndex(i)
    IN IF ~MonotoneSeq(fs, e.pred) THEN Note("predicate not monotone here: search not judged")
       ELSE
          /\ ("panic" \in DOMAIN e \/ e.res # want) => Mismatch(l, e, [res |-> want])
          /\ ("panic" \notin DOMAIN e /\ \E k \in 1 .. Len(e.seen) : ~InSeq(e.seen[k], fs)) =>
                 Mismatch(l, e, [allowed_predicate_arguments |-> fs])

Step(e) ==
    CASE e.ev = "reset" ->
            IF e.how = "new" THEN ANew(AlgOf(e.alg), e.n, e.c) ELSE AFromSeq(AlgOf(e.alg), e.cs)
      [] e.ev = "set" ->
            /\ ("panic" \in DOMAIN e) => Mismatch(l, e, "set must not panic")
            /\ ASet(e.i, e.c)
      [] e.ev = "modify" ->
            /\ ("panic" \in DOMAIN e) => Mismatch(l, e, "modify must not panic")
            /\ AModify(e.l, e.r, e.m)
      [] e.ev = "ask" ->
            /\ ("panic" \in DOMAIN e \/ e.res # AskResult(e.l, e.r)) => Mismatch(l, e, [res |-> AskResult(e.l, e.r)])
            /\ AQuery
      [] e.ev = "rebuild_from_leaves" ->
            \* the tree is rebuilt from copies of its own single-element reads: the logical array is unchanged
            /\ ("panic" \in DOMAIN e \/ e.leaves # [i \in 1 .. n |-> arr[i - 1]]) => Mismatch(l, e, [leaves |-> [i \in 1 .. n |-> arr[i - 1]]])
            /\ AQuery
      [] e.ev = "lb" ->
            /\ JudgeSearch(e, FoldsFrom(e.pos), LAMBDA i : e.pos + i - 1)
            /\ AQuery
      [] e.ev = "lbrev" ->
            /\ JudgeSearch(e, FoldsTo(e.pos), LAMBDA i : e.pos - i + 1)
            /\ AQuery
      [] OTHER -> Mismatch(l, e, "unknown event") /\ AQuery

Next == l <= Len(Rec) /\ Step(Rec[l]) /\ l' = l + 1
Spec == Init /\ [][Next]_tvars

Accepted == TLCGet("stats").diameter = Len(Rec) + 1
            \/ PrintT("INCOMPLETE " \o ToString(TLCGet("stats").diameter) \o " of " \o ToString(Len(Rec) + 1))
=============================================================================
