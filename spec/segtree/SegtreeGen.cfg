SPECIFICATION GSpec
CONSTANT AlgName = "hashaff"
CONSTANT Sizes = {1, 2, 3}
CONSTANT Depth = 3
CONSTANT Scalars = {0, 1}
CONSTANT UseJunk = TRUE
VIEW View
INVARIANT RefinesAll
INVARIANT DefaultIsIdentity
INVARIANT AncestorPending
INVARIANT EmitState
CHECK_DEADLOCK FALSE
