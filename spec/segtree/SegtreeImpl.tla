----------------------------- MODULE SegtreeImpl -----------------------------
(***************************************************************************)
(* (B) Implementation-shaped model of rlib_segtree::Segtree                *)
(* (rlib/segtree/src/segtree.rs): the node array `data` of items, an inner *)
(* item also carrying the not-yet-pushed modifier of its subtree, and the  *)
(* recursive procedures transcribed one to one.  Queries mutate `data`     *)
(* (they push), as in the code.                                            *)
(***************************************************************************)
EXTENDS Segtree, TLC

VARIABLE data
vars == <<alg, n, arr, data>>

RECURSIVE P2(_, _)
P2(p, k) == IF p >= k THEN p ELSE P2(2 * p, k)

\* fn push_at / merge_at
PushAt(d, i) ==
    LET r == PushI(alg, d[i], d[2 * i + 1], d[2 * i + 2])
    IN [d EXCEPT ![i] = r[1], ![2 * i + 1] = r[2], ![2 * i + 2] = r[3]]
MergeAt(d, i) == [d EXCEPT ![i] = MergeI(alg, d[2 * i + 1], d[2 * i + 2])]

\* as PushAt/MergeAt but for an algebra given explicitly (construction happens before alg' is known as alg)
MergeAtA(al, d, i) == [d EXCEPT ![i] = MergeI(al, d[2 * i + 1], d[2 * i + 2])]

\* fn new_raw
NewRaw(k, item) == [i \in 0 .. 2 * P2(1, k) - 1 |-> item]

RECURSIVE RebuildEmpty(_, _, _, _, _)
RebuildEmpty(al, d, i, l, r) ==
    IF l = r THEN d
    ELSE LET m == (l + r) \div 2
         IN MergeAtA(al, RebuildEmpty(al, RebuildEmpty(al, d, 2 * i + 1, l, m), 2 * i + 2, m + 1, r), i)

RECURSIVE Rebuild(_, _, _, _, _, _)
\* leaves take the items of `its` (1-based sequence) in order
Rebuild(al, d, its, i, l, r) ==
    IF l = r THEN [d EXCEPT ![i] = its[l + 1]]
    ELSE LET m == (l + r) \div 2
         IN MergeAtA(al, Rebuild(al, Rebuild(al, d, its, 2 * i + 1, l, m), its, 2 * i + 2, m + 1, r), i)

RECURSIVE SetI(_, _, _, _, _, _)
SetI(d, ind, val, i, vl, vr) ==
    IF vl = vr THEN [d EXCEPT ![i] = val]
    ELSE LET d1 == PushAt(d, i)
             m == (vl + vr) \div 2
             d2 == IF ind <= m THEN SetI(d1, ind, val, 2 * i + 1, vl, m) ELSE SetI(d1, ind, val, 2 * i + 2, m + 1, vr)
         IN MergeAt(d2, i)

RECURSIVE AskI(_, _, _, _, _, _)
\* returns <<data, item>>
AskI(d, l, r, i, vl, vr) ==
    IF l = vl /\ r = vr THEN <<d, d[i]>>
    ELSE LET d1 == PushAt(d, i)
             m == (vl + vr) \div 2
         IN IF r <= m THEN AskI(d1, l, r, 2 * i + 1, vl, m)
            ELSE IF l > m THEN AskI(d1, l, r, 2 * i + 2, m + 1, vr)
            ELSE LET a == AskI(d1, l, m, 2 * i + 1, vl, m)
                     b == AskI(a[1], m + 1, r, 2 * i + 2, m + 1, vr)
                 IN <<b[1], MergeI(alg, a[2], b[2])>>

RECURSIVE ModI(_, _, _, _, _, _, _)
ModI(d, l, r, md, i, vl, vr) ==
    IF l = vl /\ r = vr THEN [d EXCEPT ![i] = ModifyI(alg, d[i], md)]
    ELSE LET d1 == PushAt(d, i)
             m == (vl + vr) \div 2
             d2 == IF r <= m THEN ModI(d1, l, r, md, 2 * i + 1, vl, m)
                   ELSE IF l > m THEN ModI(d1, l, r, md, 2 * i + 2, m + 1, vr)
                   ELSE ModI(ModI(d1, l, m, md, 2 * i + 1, vl, m), m + 1, r, md, 2 * i + 2, m + 1, vr)
         IN MergeAt(d2, i)

MaxI(x, y) == IF x > y THEN x ELSE y
MinI(x, y) == IF x < y THEN x ELSE y

RECURSIVE LbI(_, _, _, _, _, _, _, _, _)
\* lower_bound_internal: returns [d, item, res, seen]; seen = summaries shown to the predicate
LbI(d, item, pred, l, r, i, vl, vr, seen) ==
    LET covered == l = vl /\ r = vr
        next == MergeI(alg, item, d[i])
        seen1 == IF covered THEN seen \cup {SumOf(alg, next)} ELSE seen
    IN IF covered /\ ~Holds(pred, SumOf(alg, next)) THEN [d |-> d, item |-> next, res |-> NONE, seen |-> seen1]
       ELSE IF covered /\ vl = vr THEN [d |-> d, item |-> next, res |-> vl, seen |-> seen1]
       ELSE LET d1 == PushAt(d, i)
                m == (vl + vr) \div 2
            IN IF l <= m
               THEN LET lf == LbI(d1, item, pred, l, m, 2 * i + 1, vl, m, seen1)
                    IN IF lf.res # NONE THEN lf
                       ELSE LbI(lf.d, lf.item, pred, MaxI(l, m + 1), r, 2 * i + 2, m + 1, vr, lf.seen)
               ELSE LbI(d1, item, pred, MaxI(l, m + 1), r, 2 * i + 2, m + 1, vr, seen1)

RECURSIVE LbRevI(_, _, _, _, _, _, _, _, _)
LbRevI(d, item, pred, l, r, i, vl, vr, seen) ==
    LET covered == l = vl /\ r = vr
        next == MergeI(alg, d[i], item)
        seen1 == IF covered THEN seen \cup {SumOf(alg, next)} ELSE seen
    IN IF covered /\ ~Holds(pred, SumOf(alg, next)) THEN [d |-> d, item |-> next, res |-> NONE, seen |-> seen1]
       ELSE IF covered /\ vl = vr THEN [d |-> d, item |-> next, res |-> vl, seen |-> seen1]
       ELSE LET d1 == PushAt(d, i)
                m == (vl + vr) \div 2
            IN IF r > m
               THEN LET rt == LbRevI(d1, item, pred, m + 1, r, 2 * i + 2, m + 1, vr, seen1)
                    IN IF rt.res # NONE THEN rt
                       ELSE LbRevI(rt.d, rt.item, pred, l, MinI(r, m), 2 * i + 1, vl, m, rt.seen)
               ELSE LbRevI(d1, item, pred, l, MinI(r, m), 2 * i + 1, vl, m, seen1)

(* ---- what (B) answers ---------------------------------------------------------- *)
BAsk(l, r)      == AskI(data, l, r, 0, 0, n - 1)
BLb(l, pred)    == LbI(data, DefaultItem(alg), pred, l, n - 1, 0, 0, n - 1, {})
BLbRev(r, pred) == LbRevI(data, DefaultItem(alg), pred, 0, r, 0, 0, n - 1, {})

(* ---- lockstep actions ---------------------------------------------------------- *)
\* Segtree::new / from_slice (new_raw filled with data[0]) / from_iter (new_raw filled with T::default())
\* jk = 1: the items handed in carry a junk pending-modifier field (see SegAlg.LeafItemJ)
DataNew(al, k, c, jk) == RebuildEmpty(al, NewRaw(k, LeafItemJ(al, c, jk)), 0, 0, k - 1)
DataFromSeq(al, cs, how, jk) ==
    Rebuild(al, NewRaw(Len(cs), IF how = "slice" THEN LeafItemJ(al, cs[1], jk) ELSE DefaultItem(al)),
            [j \in 1 .. Len(cs) |-> LeafItemJ(al, cs[j], jk)], 0, 0, Len(cs) - 1)
New(al, k, c, jk) == ANew(al, k, c) /\ data' = DataNew(al, k, c, jk)
FromSeq(al, cs, how, jk) == AFromSeq(al, cs) /\ data' = DataFromSeq(al, cs, how, jk)
Set(i, c, jk)   == ASet(i, c) /\ data' = SetI(data, i, LeafItemJ(alg, c, jk), 0, 0, n - 1)
Modify(l, r, m) == AModify(l, r, m) /\ data' = ModI(data, l, r, m, 0, 0, n - 1)
Ask(l, r)       == AQuery /\ data' = BAsk(l, r)[1]
Lb(l, pred)     == AQuery /\ data' = BLb(l, pred).d
LbRev(r, pred)  == AQuery /\ data' = BLbRev(r, pred).d

(* ---- invariants -------------------------------------------------------------------- *)
\* predicates of the family `Preds` that are monotone for this start / end position
Refines(Preds) ==
    /\ \A l \in Idx : \A r \in l .. n - 1 : SumOf(alg, BAsk(l, r)[2]) = AskResult(l, r)
    /\ \A l \in Idx : \A p \in Preds : MonotoneFrom(l, p) =>
            LET b == BLb(l, p) IN b.res = LowerBound(l, p) /\ b.seen \subseteq ArgsFrom(l)
    /\ \A r \in Idx : \A p \in Preds : MonotoneTo(r, p) =>
            LET b == BLbRev(r, p) IN b.res = LowerBoundRev(r, p) /\ b.seen \subseteq ArgsTo(r)

\* the default item is the identity of merge (C02 is stated for such items)
DefaultIsIdentity == \A i \in Idx : Merge(alg, Ident(alg), arr[i]) = arr[i] /\ Merge(alg, arr[i], Ident(alg)) = arr[i]

\* structural: for every tree node covering [l, r], its summary is the fold of [l, r] with exactly the pending
\* modifiers of its strict ancestors still to be applied
RECURSIVE NodeOK(_, _, _, _)
\* d: data with the pending modifiers of the ancestors of node i already pushed into it
NodeOK(d, i, l, r) ==
    /\ SumOf(alg, d[i]) = Fold(l, r)
    /\ (l < r => LET d1 == PushAt(d, i)
                     m == (l + r) \div 2
                 IN NodeOK(d1, 2 * i + 1, l, m) /\ NodeOK(d1, 2 * i + 2, m + 1, r))
AncestorPending == NodeOK(data, 0, 0, n - 1)
=============================================================================
