------------------------------ MODULE MintTrace ------------------------------
(***************************************************************************)
(* Implementation -> spec for C06.                                         *)
(*                                                                         *)
(* tab{m,op,rows}   complete operation tables of Modular<m> for a small    *)
(*                  modulus (native integers): add, sub, mul, div and      *)
(*                  their assigning forms rows[x+1][y+1]; neg, inv vectors;*)
(*                  pow rows[x+1][d+1]; new vector over v = -3m .. 3m      *)
(* big{m,op,x,y,res,w...}   one operation on a 31-bit modulus, operands    *)
(*                  and result as 12-bit limbs, quotient / Bezout / chain  *)
(*                  witnesses (see module Mint)                            *)
(* txt{m,res,display,debug,written}   renderings of a value                *)
(***************************************************************************)
EXTENDS Mint, TraceLib, FiniteSets

VARIABLE l

RECURSIVE GcdN(_, _)
GcdN(a, b) == IF b = 0 THEN a ELSE GcdN(b, a % b)
RECURSIVE PowN(_, _, _)
PowN(x, d, m) == IF d = 0 THEN 1 % m ELSE (x * PowN(x, d - 1, m)) % m
ModN(v, m) == ((v % m) + m) % m

\* the entries of a small-modulus table that disagree with the definition (empty = fine)
BadEntries(e) ==
    LET m == e.m
        R == 0 .. m - 1
    IN CASE e.op \in {"add", "add_assign"} -> {<<x, y>> \in R \X R : e.rows[x + 1][y + 1] # (x + y) % m}
         [] e.op \in {"sub", "sub_assign"} -> {<<x, y>> \in R \X R : e.rows[x + 1][y + 1] # ModN(x - y, m)}
         [] e.op \in {"mul", "mul_assign"} -> {<<x, y>> \in R \X R : e.rows[x + 1][y + 1] # (x * y) % m}
         [] e.op \in {"div", "div_assign"} ->
                \* (x / y) * y = x whenever y is coprime to m; the quotient itself must be canonical
                {<<x, y>> \in R \X R : GcdN(y, m) = 1 /\ ~(e.rows[x + 1][y + 1] \in R /\ (e.rows[x + 1][y + 1] * y) % m = x)}
         [] e.op = "neg" -> {<<x, 0>> : x \in {z \in R : e.rows[z + 1] # ModN(0 - z, m)}}
         [] e.op = "inv" -> {<<x, 0>> : x \in {z \in R : GcdN(z, m) = 1 /\ ~(e.rows[z + 1] \in R /\ (e.rows[z + 1] * z) % m = 1 % m)}}
         [] e.op = "pow" -> {<<x, d>> \in R \X (0 .. 2 * m) : e.rows[x + 1][d + 1] # PowN(x, d, m)}
         [] e.op = "new" -> {<<v, 0>> : v \in {w \in (0 - 3 * m) .. 3 * m : e.rows[w + 3 * m + 1] # ModN(w, m)}}
         [] e.op = "eq" -> {<<x, y>> \in R \X R : e.rows[x + 1][y + 1] # (x = y)}

I(v) == BI(v.neg, v.mag)

BigOK(e) ==
    LET m == e.m
    IN /\ BNLt(e.res, m)                                       \* canonical representative
       /\ CASE e.op \in {"add", "add_assign"} -> AddOK(e.x, e.y, m, I(e.w_q), e.res)
            [] e.op \in {"sub", "sub_assign"} -> SubOK(e.x, e.y, m, I(e.w_q), e.res)
            [] e.op \in {"mul", "mul_assign"} -> MulOK(e.x, e.y, m, I(e.w_q), e.res)
            [] e.op = "neg" -> NegOK(e.x, m, I(e.w_q), e.res)
            [] e.op = "new" -> IsRed(I(e.v), m, I(e.w_q), e.res)
            [] e.op = "inv" -> IsUnit(e.x, m, I(e.w_s), I(e.w_t)) => MulOK(e.res, e.x, m, I(e.w_q), BNFromNat(1))
            [] e.op \in {"div", "div_assign"} -> IsUnit(e.y, m, I(e.w_s), I(e.w_t)) => MulOK(e.res, e.y, m, I(e.w_q), e.x)
            [] e.op = "pow" ->
                   LET bits == BitsOf(e.d, 1)
                       r0 == IF m = <<1>> THEN <<>> ELSE <<1>>
                   IN /\ Len(e.w_chain) >= BNBitLen(e.d)
                      /\ PowChainOK(bits, 1, e.x, r0, m, e.w_chain)
                      /\ e.res = (IF e.w_chain = <<>> THEN r0 ELSE e.w_chain[Len(e.w_chain)].r)

WitnessPresent(e) ==
    CASE e.op \in {"inv"} -> IsUnit(e.x, e.m, I(e.w_s), I(e.w_t))
      [] e.op \in {"div", "div_assign"} -> IsUnit(e.y, e.m, I(e.w_s), I(e.w_t))
      [] OTHER -> TRUE

(* ---- beyond the listed property: Show for Modular (rational reconstruction), prime moduli ------------------------ *)
RECURSIVE DigitsOfN(_)
DigitsOfN(k) == IF k < 10 THEN <<48 + k>> ELSE DigitsOfN(k \div 10) \o <<48 + (k % 10)>>
DecN(k) == IF k < 0 THEN <<45>> \o DigitsOfN(0 - k) ELSE DigitsOfN(k)
\* show(): the first denominator 1..min(mint_max, M-1) (1 only if mint_rational is off), then the first numerator
\* -mint_max..mint_max, with numerator / denominator = the value in Z/M; "?v" (or "v" when mint_max = 0) if there is none
ShowWant(v, m, mx, rat) ==
    LET maxden == IF rat THEN (IF mx < m - 1 THEN mx ELSE m - 1) ELSE 1
        C == {p \in (1 .. maxden) \X ((0 - mx) .. mx) : ModN(p[2] - v * p[1], m) = 0}
    IN IF C # {}
       THEN LET best == CHOOSE p \in C : \A q \in C : p[1] < q[1] \/ (p[1] = q[1] /\ p[2] <= q[2])
            IN IF best[1] = 1 THEN DecN(best[2]) ELSE DecN(best[2]) \o <<47>> \o DecN(best[1])
       ELSE IF mx = 0 THEN DecN(v) ELSE <<63>> \o DecN(v)

AllDigits(sq) == Len(sq) > 0 /\ \A i \in 1 .. Len(sq) : sq[i] >= 48 /\ sq[i] <= 57
IsDecimal(sq, mag) == AllDigits(sq) /\ (Len(sq) > 1 => sq[1] # 48) /\ BNFromDigits(sq) = mag

Init == l = 1

Step(e) ==
    CASE e.ev = "tab" ->
            IF "panic" \in DOMAIN e THEN Mismatch(l, [ev |-> "tab", m |-> e.m, op |-> e.op, panic |-> e.panic], "must not panic")
            ELSE LET B == BadEntries(e) IN (B # {}) => Mismatch(l, [ev |-> "tab", m |-> e.m, op |-> e.op], [wrong_entries |-> B])
      [] e.ev = "big" ->
            IF "panic" \in DOMAIN e THEN Mismatch(l, e, "must not panic")
            ELSE /\ (~WitnessPresent(e)) => Mismatch(l, e, "harness bug: coprimality witness invalid")
                 /\ (~BigOK(e)) => Mismatch(l, e, "result is not the canonical representative of the exact result")
      [] e.ev = "show" ->
            LET B == {i \in 1 .. Len(e.rows) : e.rows[i][2] # ShowWant(e.rows[i][1], e.m, e.max, e.rational)}
            IN (B # {}) => Mismatch(l, [ev |-> "show", op |-> "show", m |-> e.m, max |-> e.max, rational |-> e.rational],
                                    [wrong |-> {<<e.rows[i][1], e.rows[i][2], ShowWant(e.rows[i][1], e.m, e.max, e.rational)>> : i \in B}])
      [] e.ev = "txt" ->
            (~(IsDecimal(e.display, e.res) /\ e.debug = e.display /\ e.written = e.display)) =>
                Mismatch(l, e, "rendering is not the decimal text of the canonical representative")
      [] OTHER -> TRUE

Next == l <= Len(Rec) /\ Step(Rec[l]) /\ l' = l + 1
Spec == Init /\ [][Next]_l

Accepted == TLCGet("stats").diameter = Len(Rec) + 1
            \/ PrintT("INCOMPLETE " \o ToString(TLCGet("stats").diameter) \o " of " \o ToString(Len(Rec) + 1))
=============================================================================
