-------------------------------- MODULE Mint --------------------------------
(***************************************************************************)
(* (A) Specification of rlib_mint::Modular<M>: the ring Z/M with canonical *)
(* representatives.  Everything is stated as a *defining relation* on      *)
(* exact integers, so no division is ever computed:                        *)
(*                                                                         *)
(*   r is the representative of v   iff   v = q*M + r  and  0 <= r < M     *)
(*                                                                         *)
(* Values are BigInt records (module BigNat); the quotient q is a witness  *)
(* supplied by whoever claims the relation.  Since r is unique for given   *)
(* v and M, a wrong witness can only make a claim fail.                    *)
(***************************************************************************)
EXTENDS BigNat

\* v = q*m + r, 0 <= r < m      (v, q BigInt; m, r BigNat)
IsRed(v, m, q, r) ==
    /\ BNLt(r, m)
    /\ BIEq(v, BIAdd(BIMul(q, BI(FALSE, m)), BI(FALSE, r)))

Nat2I(a) == BI(FALSE, a)

\* results of the ring operations on representatives x, y < m, given the witness q
AddOK(x, y, m, q, r) == IsRed(BIAdd(Nat2I(x), Nat2I(y)), m, q, r)
SubOK(x, y, m, q, r) == IsRed(BISub(Nat2I(x), Nat2I(y)), m, q, r)
MulOK(x, y, m, q, r) == IsRed(BIMul(Nat2I(x), Nat2I(y)), m, q, r)
NegOK(x, m, q, r)    == IsRed(BINeg(Nat2I(x)), m, q, r)

\* s*y + t*m = 1: y is a unit modulo m
IsUnit(y, m, sw, tw) == BIEq(BIAdd(BIMul(sw, Nat2I(y)), BIMul(tw, Nat2I(m))), BIFromInt(1))

\* d as a sequence of bits, least significant first, from its limbs
RECURSIVE BitsOfLimb(_, _)
BitsOfLimb(v, k) == IF k = 0 THEN <<>> ELSE <<v % 2>> \o BitsOfLimb(v \div 2, k - 1)
RECURSIVE BitsOf(_, _)
BitsOf(a, i) == IF i > Len(a) THEN <<>> ELSE BitsOfLimb(a[i], BNBits) \o BitsOf(a, i + 1)

\* square-and-multiply chain for x^d: chain[i] = [a, r, qa, qr] with
\*   a_0 = x, r_0 = 1 mod m;  r_i = r_{i-1} * a_{i-1}^{bit_i} mod m;  a_i = a_{i-1}^2 mod m
\* any chain satisfying the relations has r_last = x^d mod m
RECURSIVE PowChainOK(_, _, _, _, _, _)
PowChainOK(bits, i, a, r, m, chain) ==
    IF i > Len(chain) THEN TRUE
    ELSE LET c == chain[i]
             b == IF i <= Len(bits) THEN bits[i] ELSE 0
         IN /\ (IF b = 1 THEN MulOK(r, a, m, c.qr, c.r) ELSE c.r = r)
            /\ MulOK(a, a, m, c.qa, c.a)
            /\ PowChainOK(bits, i + 1, c.a, c.r, m, chain)
=============================================================================
