----------------------------- MODULE IterTrace -----------------------------
(***************************************************************************)
(* Implementation -> spec for C15 (masks): complete output of              *)
(* iter_submasks / iter_supermasks for a mask x of an integer type with    *)
(* `bits` bits (signed types as their bit patterns), every value as 12-bit *)
(* limbs, least significant first.                                         *)
(*   masks{ty,bits,dir,x,list}                                             *)
(***************************************************************************)
EXTENDS Iter, TraceLib

VARIABLE l
Init == l = 1

Step(e) ==
    IF "panic" \in DOMAIN e THEN Mismatch(l, [ev |-> e.ev, op |-> e.dir, ty |-> e.ty, x |-> e.x, panic |-> e.panic], "must not panic")
    ELSE CASE e.ev = "masks" /\ e.dir = "sub" ->
                (~SubmasksOK(e.list, e.x, e.bits)) => Mismatch(l, [ev |-> "masks", op |-> "iter_submasks", ty |-> e.ty, x |-> e.x, len |-> Len(e.list)],
                                                             "not every submask exactly once in decreasing unsigned order ending with 0")
           [] e.ev = "masks" /\ e.dir = "super" ->
                (~SupermasksOK(e.list, e.x, e.bits)) => Mismatch(l, [ev |-> "masks", op |-> "iter_supermasks", ty |-> e.ty, x |-> e.x, len |-> Len(e.list)],
                                                               "not every supermask exactly once in increasing unsigned order ending with all-ones")
           [] OTHER -> TRUE

Next == l <= Len(Rec) /\ Step(Rec[l]) /\ l' = l + 1
Spec == Init /\ [][Next]_l

Accepted == TLCGet("stats").diameter = Len(Rec) + 1
            \/ PrintT("INCOMPLETE " \o ToString(TLCGet("stats").diameter) \o " of " \o ToString(Len(Rec) + 1))
=============================================================================
