----------------------------- MODULE IterTrace -----------------------------
(***************************************************************************)
(* Implementation -> spec for C15 (masks): complete output of              *)
(* iter_submasks / iter_supermasks for a mask x of an integer type with    *)
(* `bits` bits (signed types as their bit patterns), every value as 12-bit *)
(* limbs, least significant first.                                         *)
(*   masks{ty,bits,dir,x,list}                                             *)
(***************************************************************************)
EXTENDS Iter, TraceLib

VARIABLE l
Init == l = 1

Step(e) ==
    IF "panic" \in DOMAIN e /\ e.ev \in {"perm_long", "nbr_big"} THEN Mismatch(l, [ev |-> e.ev, op |-> e.op, panic |-> e.panic], "must not panic")
    ELSE IF "panic" \in DOMAIN e THEN Mismatch(l, [ev |-> e.ev, op |-> e.dir, ty |-> e.ty, x |-> e.x, panic |-> e.panic], "must not panic")
    ELSE CASE e.ev = "masks" /\ e.dir = "sub" ->
                (~SubmasksOK(e.list, e.x, e.bits)) => Mismatch(l, [ev |-> "masks", op |-> "iter_submasks", ty |-> e.ty, x |-> e.x, len |-> Len(e.list)],
                                                             "not every submask exactly once in decreasing unsigned order ending with 0")
           [] e.ev = "masks" /\ e.dir = "super" ->
                (~SupermasksOK(e.list, e.x, e.bits)) => Mismatch(l, [ev |-> "masks", op |-> "iter_supermasks", ty |-> e.ty, x |-> e.x, len |-> Len(e.list)],
                                                               "not every supermask exactly once in increasing unsigned order ending with all-ones")
           [] e.ev = "perm_long" ->
                \* sequences longer than the generator enumerates (repeated elements, long non-increasing tails)
                LET w == NextPermCons(e.seq)
                IN (e.next # w.seq \/ e.ret # w.more) => Mismatch(l, [ev |-> "perm_long", op |-> "next_permutation", seq |-> e.seq, got |-> e.next, ret |-> e.ret], w)
           [] e.ev = "nbr_big" ->
                \* grids and cells beyond 2^31 / 2^32, given relative to the logged base
                LET w == [n4 |-> NeighRel(Off4, 1, e.nr, e.mr, e.ir, e.jr), n4d |-> NeighRel(Off4d, 1, e.nr, e.mr, e.ir, e.jr),
                          n8 |-> NeighRel(Off8, 1, e.nr, e.mr, e.ir, e.jr)]
                IN (e.n4 # w.n4 \/ e.n4d # w.n4d \/ e.n8 # w.n8) => Mismatch(l, [ev |-> "nbr_big", op |-> "iter_neighbours", base |-> e.base, got |-> [n4 |-> e.n4, n4d |-> e.n4d, n8 |-> e.n8]], w)
           [] OTHER -> TRUE

Next == l <= Len(Rec) /\ Step(Rec[l]) /\ l' = l + 1
Spec == Init /\ [][Next]_l

Accepted == TLCGet("stats").diameter = Len(Rec) + 1
            \/ PrintT("INCOMPLETE " \o ToString(TLCGet("stats").diameter) \o " of " \o ToString(Len(Rec) + 1))
=============================================================================
