-------------------------------- MODULE Iter --------------------------------
(***************************************************************************)
(* (A) Specification of rlib_iter (C15): submask / supermask enumeration,  *)
(* lexicographic permutation stepping, grid neighbours.                    *)
(***************************************************************************)
EXTENDS Integers, Sequences, FiniteSets, Bitwise

(* ---- masks: fixed-length sequences of 12-bit limbs, least significant first ---- *)
LimbAnd(a, b) == [i \in 1 .. Len(a) |-> a[i] & b[i]]
IsSubmask(s, x) == LimbAnd(s, x) = s
IsSupermask(s, x) == LimbAnd(s, x) = x

RECURSIVE LimbCmpRec(_, _, _)
LimbCmpRec(a, b, i) == IF i = 0 THEN 0 ELSE IF a[i] < b[i] THEN -1 ELSE IF a[i] > b[i] THEN 1 ELSE LimbCmpRec(a, b, i - 1)
\* unsigned comparison of two masks of equal length
LimbCmp(a, b) == LimbCmpRec(a, b, Len(a))

RECURSIVE Pop12(_)
Pop12(v) == IF v = 0 THEN 0 ELSE (v % 2) + Pop12(v \div 2)
RECURSIVE PopCount(_, _)
PopCount(a, i) == IF i > Len(a) THEN 0 ELSE Pop12(a[i]) + PopCount(a, i + 1)
RECURSIVE P2(_)
P2(k) == IF k = 0 THEN 1 ELSE 2 * P2(k - 1)

\* limbs of the all-ones mask / zero mask of a type with `bits` bits
OnesMask(bits) == [i \in 1 .. ((bits + 11) \div 12) |-> IF 12 * i <= bits THEN 4095 ELSE P2(bits - 12 * (i - 1)) - 1]
ZeroMask(bits) == [i \in 1 .. ((bits + 11) \div 12) |-> 0]

\* A list is THE submask enumeration of x iff it starts at x, strictly decreases (unsigned), consists of submasks,
\* ends with 0 and has 2^popcount(x) elements -- which together force "every submask exactly once".
SubmasksOK(list, x, bits) ==
    /\ Len(list) = P2(PopCount(x, 1))
    /\ list[1] = x /\ list[Len(list)] = ZeroMask(bits)
    /\ \A i \in 1 .. Len(list) : IsSubmask(list[i], x)
    /\ \A i \in 1 .. Len(list) - 1 : LimbCmp(list[i], list[i + 1]) = 1
SupermasksOK(list, x, bits) ==
    /\ Len(list) = P2(bits - PopCount(x, 1))
    /\ list[1] = x /\ list[Len(list)] = OnesMask(bits)
    /\ \A i \in 1 .. Len(list) : IsSupermask(list[i], x) /\ IsSubmask(list[i], OnesMask(bits))
    /\ \A i \in 1 .. Len(list) - 1 : LimbCmp(list[i], list[i + 1]) = -1

(* ---- permutations ----------------------------------------------------------------- *)
RECURSIVE LexLess(_, _)
LexLess(s, t) == IF s = <<>> THEN t # <<>>
                 ELSE IF t = <<>> THEN FALSE
                 ELSE IF Head(s) < Head(t) THEN TRUE
                 ELSE IF Head(s) > Head(t) THEN FALSE
                 ELSE LexLess(Tail(s), Tail(t))

RECURSIVE Arrangements(_)
\* all distinct arrangements of a sequence's elements (multiset permutations)
RemoveAtIdx(s, i) == SubSeq(s, 1, i - 1) \o SubSeq(s, i + 1, Len(s))
Arrangements(s) == IF s = <<>> THEN {<<>>}
                   ELSE UNION {{<<s[i]>> \o r : r \in Arrangements(RemoveAtIdx(s, i))} : i \in 1 .. Len(s)}

\* declarative definition of next_permutation: the least arrangement greater than s, or (the least arrangement, FALSE)
LeastOf(S) == CHOOSE m \in S : \A u \in S : m = u \/ LexLess(m, u)
NextPermDecl(s) ==
    LET G == {u \in Arrangements(s) : LexLess(s, u)}
    IN IF G = {} THEN [seq |-> LeastOf(Arrangements(s)), more |-> FALSE] ELSE [seq |-> LeastOf(G), more |-> TRUE]

\* constructive definition (pivot, rightmost greater element, suffix reversal), used beyond the sizes where the
\* declarative one is cheap; IterGen checks that both agree on every sequence where both are evaluated
Rev(s) == [i \in 1 .. Len(s) |-> s[Len(s) - i + 1]]
NextPermCons(s) ==
    LET P == {i \in 1 .. Len(s) - 1 : s[i] < s[i + 1]}
    IN IF P = {} THEN [seq |-> Rev(s), more |-> FALSE]
       ELSE LET i == CHOOSE k \in P : \A q \in P : q <= k
                J == {j \in i + 1 .. Len(s) : s[j] > s[i]}
                j == CHOOSE k \in J : \A q \in J : q <= k
                sw == [s EXCEPT ![i] = s[j], ![j] = s[i]]
            IN [seq |-> SubSeq(sw, 1, i) \o Rev(SubSeq(sw, i + 1, Len(s))), more |-> TRUE]

RECURSIVE SortedList(_)
\* the arrangements in lexicographic order
SortedList(S) == IF S = {} THEN <<>> ELSE LET m == LeastOf(S) IN <<m>> \o SortedList(S \ {m})
AllPermsInOrder(s) == SortedList(Arrangements(s))

(* ---- grid neighbours -------------------------------------------------------------------- *)
Off4  == <<<<0, 1>>, <<-1, 0>>, <<0, -1>>, <<1, 0>>>>
Off4d == <<<<-1, 1>>, <<-1, -1>>, <<1, -1>>, <<1, 1>>>>
Off8  == <<<<0, 1>>, <<-1, 1>>, <<-1, 0>>, <<-1, -1>>, <<0, -1>>, <<1, -1>>, <<1, 0>>, <<1, 1>>>>
RECURSIVE Neigh(_, _, _, _, _, _)
\* the in-bounds neighbours of (i, j) in an n x m grid, in the fixed offset order
Neigh(offs, k, n, m, i, j) ==
    IF k > Len(offs) THEN <<>>
    ELSE LET x == i + offs[k][1] y == j + offs[k][2]
         IN (IF x >= 0 /\ x < n /\ y >= 0 /\ y < m THEN <<<<x, y>>>> ELSE <<>>) \o Neigh(offs, k + 1, n, m, i, j)

\* the same far from the origin: grid and cell given relative to a base B >= 2 (row base and column base), so that
\* only the upper bounds can cut a neighbour off; result as offsets from the base
RECURSIVE NeighRel(_, _, _, _, _, _)
NeighRel(offs, k, nr, mr, ir, jr) ==
    IF k > Len(offs) THEN <<>>
    ELSE LET x == ir + offs[k][1] y == jr + offs[k][2]
         IN (IF x < nr /\ y < mr THEN <<<<x, y>>>> ELSE <<>>) \o NeighRel(offs, k + 1, nr, mr, ir, jr)
=============================================================================
