------------------------------ MODULE IterGen ------------------------------
(***************************************************************************)
(* Spec -> implementation for C15 (permutations, neighbours): TLC          *)
(* enumerates the inputs and emits what the specification demands.  Every  *)
(* "state" is one input; there are no transitions.                         *)
(***************************************************************************)
EXTENDS Iter, TraceLib

CONSTANTS MaxLen3, MaxDistinct, MaxGrid

VARIABLE c      \* the case
RECURSIVE SeqsOver(_, _)
SeqsOver(S, k) == IF k = 0 THEN {<<>>} ELSE {Append(s, x) : s \in SeqsOver(S, k - 1), x \in S}

\* all sequences over a 3-letter alphabet up to MaxLen3 (repeated elements)
Cases3 == UNION {{[kind |-> "next3", s |-> s] : s \in SeqsOver({1, 2, 3}, k)} : k \in 0 .. MaxLen3}
\* all arrangements of up to MaxDistinct distinct elements
CasesD == UNION {{[kind |-> "nextd", s |-> s] : s \in Arrangements([i \in 1 .. k |-> i])} : k \in 1 .. MaxDistinct}
\* whole enumerations for multisets (sorted representatives) up to length 5 over 3 letters and 1..6 distinct
IsSorted(s) == \A i \in 1 .. Len(s) - 1 : s[i] <= s[i + 1]
CasesAll == {[kind |-> "all", s |-> s] : s \in {q \in UNION {SeqsOver({1, 2, 3}, k) : k \in 0 .. 5} : IsSorted(q)}}
            \cup {[kind |-> "all", s |-> [i \in 1 .. k |-> i]] : k \in 1 .. 6}
CasesGrid == {[kind |-> "grid", s |-> <<n, m, i, j>>] : n \in 1 .. MaxGrid, m \in 1 .. MaxGrid, i \in 0 .. MaxGrid - 1, j \in 0 .. MaxGrid - 1}

Init == c \in Cases3 \cup CasesD \cup CasesAll \cup {g \in CasesGrid : g.s[3] < g.s[1] /\ g.s[4] < g.s[2]}
Next == UNCHANGED c
Spec == Init /\ [][Next]_c

\* both definitions of the successor agree wherever the declarative one is evaluated
DefinitionsAgree == (c.kind = "next3" \/ (c.kind = "nextd" /\ Len(c.s) <= 6)) => NextPermDecl(c.s) = NextPermCons(c.s)

EmitCase ==
    CASE c.kind = "next3" -> LET r == NextPermDecl(c.s) IN Emit([kind |-> "next", s |-> c.s, want |-> r.seq, more |-> r.more])
      [] c.kind = "nextd" -> LET r == NextPermCons(c.s) IN Emit([kind |-> "next", s |-> c.s, want |-> r.seq, more |-> r.more])
      [] c.kind = "all"   -> Emit([kind |-> "all", s |-> c.s, want |-> AllPermsInOrder(c.s)])
      [] c.kind = "grid"  -> Emit([kind |-> "grid", n |-> c.s[1], m |-> c.s[2], i |-> c.s[3], j |-> c.s[4],
                                   n4 |-> Neigh(Off4, 1, c.s[1], c.s[2], c.s[3], c.s[4]),
                                   n4d |-> Neigh(Off4d, 1, c.s[1], c.s[2], c.s[3], c.s[4]),
                                   n8 |-> Neigh(Off8, 1, c.s[1], c.s[2], c.s[3], c.s[4])])
=============================================================================
