SPECIFICATION Spec
CONSTANT MaxLen3 = 6
CONSTANT MaxDistinct = 6
CONSTANT MaxGrid = 6
INVARIANT DefinitionsAgree
INVARIANT EmitCase
CHECK_DEADLOCK FALSE
