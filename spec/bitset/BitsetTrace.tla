----------------------------- MODULE BitsetTrace -----------------------------
(***************************************************************************)
(* Implementation -> spec for C12: random histories on Bitset<1>, <2>,     *)
(* <3>, <10> over the whole index range with two live bitsets, judged by   *)
(* the index-set specification (A).                                        *)
(*   reset{n}  op{op,x,w}  iter{res}  count{res}  test{x,res}  eq{res}     *)
(*   display{len,ones,only01,debug_same}  the rendering, as the positions  *)
(*   of its '1' characters                                                 *)
(***************************************************************************)
EXTENDS Bitset, TraceLib

VARIABLE l
tvars == <<n, s, t, l>>

Init == n = 0 /\ s = {} /\ t = {} /\ l = 1

Cmp(e, want) == ("panic" \in DOMAIN e \/ e.res # want) => Mismatch(l, e, [res |-> want])

Step(e) ==
    CASE e.ev = "reset" -> n' = e.n /\ s' = {} /\ t' = {}
      [] e.ev = "op" ->
            /\ ("panic" \in DOMAIN e) => Mismatch(l, e, "operation must not panic")
            /\ AStep(e)
      [] e.ev = "iter"  -> Cmp(e, IterResult) /\ UNCHANGED avars
      [] e.ev = "count" -> Cmp(e, CountResult) /\ UNCHANGED avars
      [] e.ev = "test"  -> Cmp(e, TestResult(e.x)) /\ UNCHANGED avars
      [] e.ev = "eq"    -> Cmp(e, EqResult) /\ UNCHANGED avars
      [] e.ev = "display" ->
            /\ (~(e.len = 64 * n /\ e.only01 /\ e.debug_same /\ e.ones = IterResult)) =>
                   Mismatch(l, e, [len |-> 64 * n, ones |-> IterResult])
            /\ UNCHANGED avars
      [] OTHER -> Mismatch(l, e, "unknown event") /\ UNCHANGED avars

Next == l <= Len(Rec) /\ Step(Rec[l]) /\ l' = l + 1
Spec == Init /\ [][Next]_tvars

Accepted == TLCGet("stats").diameter = Len(Rec) + 1
            \/ PrintT("INCOMPLETE " \o ToString(TLCGet("stats").diameter) \o " of " \o ToString(Len(Rec) + 1))
=============================================================================
