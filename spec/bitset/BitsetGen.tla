------------------------------ MODULE BitsetGen ------------------------------
(***************************************************************************)
(* MC + spec -> implementation for C12: complete state space over a        *)
(* boundary universe of indices (word boundaries 63/64, 127/128, last bit) *)
(* for the first operand and a sub-universe for the second, for one        *)
(* capacity N per run.  One replay case per distinct state: a history      *)
(* reaching it, the two sets, and -- so that every TRANSITION of the graph *)
(* is replayed, not only a spanning tree -- the set each operation must    *)
(* produce from this state (sets encoded as 16-bit chunks, low first).     *)
(***************************************************************************)
EXTENDS BitsetImpl, TraceLib, SequencesExt

CONSTANTS Cap, Univ, SubUniv

VARIABLE hist
gvars == <<n, s, t, ws, wt, hist>>
View == vars

U  == {x \in Univ : x < 64 * Cap}
SU == {x \in SubUniv : x < 64 * Cap}
Words == {<<>>, <<0, 63>>, <<1, 62>>, <<0, 1, 62, 63>>}

Op(name, x) == [op |-> name, x |-> x, w |-> <<>>]
PointOps  == {Op(nm, x) : nm \in {"set", "remove", "flip"}, x \in U}
BulkOps   == {Op("clear", 0), Op("not", 0)} \cup {[op |-> "from_u64", x |-> 0, w |-> w] : w \in Words}
BinaryOps == {Op(nm, 0) : nm \in {"and", "or", "xor", "and_assign", "or_assign", "xor_assign", "and_self", "or_self", "xor_self"}}
TOps      == {Op(nm, x) : nm \in {"t_set", "t_flip"}, x \in SU}
Ops == PointOps \cup BulkOps \cup BinaryOps \cup TOps

GInit == n = Cap /\ s = {} /\ t = {} /\ ws = ZeroWords(Cap) /\ wt = ZeroWords(Cap) /\ hist = <<>>

DoPoint  == \E o \in PointOps : Step(o) /\ hist' = Append(hist, o)
DoBulk   == \E o \in BulkOps : Step(o) /\ hist' = Append(hist, o)
DoBinary == \E o \in BinaryOps : Step(o) /\ hist' = Append(hist, o)
DoT      == \E o \in TOps : Step(o) /\ hist' = Append(hist, o)

GNext == DoPoint \/ DoBulk \/ DoBinary \/ DoT
GSpec == GInit /\ [][GNext]_gvars

RECURSIVE P2(_)
P2(k) == IF k = 0 THEN 1 ELSE 2 * P2(k - 1)
RECURSIVE SumOfSet(_)
SumOfSet(S) == IF S = {} THEN 0 ELSE LET x == CHOOSE y \in S : TRUE IN x + SumOfSet(S \ {x})
\* a set of indices as 4*Cap chunks of 16 bits
Enc(S) == [c \in 1 .. 4 * Cap |-> SumOfSet({P2(x - 16 * (c - 1)) : x \in {y \in S : y >= 16 * (c - 1) /\ y < 16 * c}})]

OpSeq == SetToSeq(Ops)

EmitState ==
    Emit([n |-> n, hist |-> hist, s |-> Enc(s), t |-> Enc(t), count |-> CountResult, eq |-> EqResult,
          ops |-> [i \in 1 .. Len(OpSeq) |-> <<OpSeq[i].op, OpSeq[i].x, OpSeq[i].w>>], succ |-> [i \in 1 .. Len(OpSeq) |-> <<Enc(SNext(OpSeq[i])), Enc(TNext(OpSeq[i]))>>]])
=============================================================================
