------------------------------- MODULE Bitset -------------------------------
(***************************************************************************)
(* (A) Abstract specification of rlib_bitset::Bitset<N>: a set of indices  *)
(* within 0 .. 64*N-1.  Two live objects (s and t) so that the binary      *)
(* operators have a second operand.  An operation is a record              *)
(*   [op |-> name, x |-> argument]                                         *)
(* and SNext / TNext give the two sets after it.                           *)
(***************************************************************************)
EXTENDS Integers, FiniteSets, Sequences

VARIABLES n, s, t
avars == <<n, s, t>>

IdxRange == 0 .. 64 * n - 1
SymD(a, b) == (a \ b) \cup (b \ a)
SeqToSet(q) == {q[i] : i \in 1 .. Len(q)}

SNext(o) ==
    CASE o.op = "set"    -> s \cup {o.x}
      [] o.op = "remove" -> s \ {o.x}
      [] o.op = "flip"   -> SymD(s, {o.x})
      [] o.op = "clear"  -> {}
      [] o.op = "from_u64" -> SeqToSet(o.w)      \* the word's set bit positions (0..63), ascending
      [] o.op \in {"and", "and_assign"} -> s \cap t
      [] o.op \in {"or", "or_assign"}   -> s \cup t
      [] o.op \in {"xor", "xor_assign"} -> SymD(s, t)
      [] o.op = "not"    -> IdxRange \ s
      \* the value-form operators with the very same object on both sides: &a & &a, &a | &a, &a ^ &a
      [] o.op \in {"and_self", "or_self"} -> s
      [] o.op = "xor_self" -> {}
      [] OTHER -> s
TNext(o) ==
    CASE o.op = "t_set"  -> t \cup {o.x}
      [] o.op = "t_flip" -> SymD(t, {o.x})
      [] o.op = "t_copy" -> s                     \* t = s.clone()
      [] OTHER -> t

AStep(o) == s' = SNext(o) /\ t' = TNext(o) /\ n' = n

TestResult(x) == x \in s
CountResult == Cardinality(s)
EqResult == s = t

RECURSIVE Ascending(_)
\* iter_bits(): the indices in increasing order
Ascending(S) == IF S = {} THEN <<>> ELSE LET m == CHOOSE x \in S : \A y \in S : x <= y IN <<m>> \o Ascending(S \ {m})
IterResult == Ascending(s)
=============================================================================
