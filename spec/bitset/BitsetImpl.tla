----------------------------- MODULE BitsetImpl -----------------------------
(***************************************************************************)
(* (B) Implementation-shaped model of rlib_bitset (bitset.rs,              *)
(* bits_iter.rs): `data: [u64; N]` as N words, a word being the set of its *)
(* set bit positions 0..63; point operations address word x / 64 and bit   *)
(* x % 64; the operators work word by word; the index iterator is          *)
(* transcribed statement by statement (it is the only non-trivial control  *)
(* flow: skip the rest of a word with no set bit at or above the cursor,   *)
(* otherwise jump by trailing_zeros of the shifted word).                  *)
(***************************************************************************)
EXTENDS Bitset, TLC

VARIABLES ws, wt           \* words of the two objects: [0 .. n-1 -> SUBSET 0..63]
vars == <<n, s, t, ws, wt>>

Bits == 0 .. 63
ZeroWords(k) == [i \in 0 .. k - 1 |-> {}]

\* w >> k and trailing_zeros on words-as-sets
Shr(w, k) == {p - k : p \in {q \in w : q >= k}}
MinOf(S) == CHOOSE x \in S : \A y \in S : x <= y

WSet(w, x)    == [w EXCEPT ![x \div 64] = @ \cup {x % 64}]
WRemove(w, x) == [w EXCEPT ![x \div 64] = @ \ {x % 64}]
WFlip(w, x)   == [w EXCEPT ![x \div 64] = IF (x % 64) \in @ THEN @ \ {x % 64} ELSE @ \cup {x % 64}]
WTest(w, x)   == (x % 64) \in w[x \div 64]        \* ((data[x/64] >> (x%64)) & 1) > 0
WCount(w) == LET RECURSIVE C(_)
                 C(i) == IF i = n THEN 0 ELSE Cardinality(w[i]) + C(i + 1)
             IN C(0)
WFromU64(word) == [i \in 0 .. n - 1 |-> IF i = 0 THEN word ELSE {}]
WZip(a, b, Op(_, _)) == [i \in 0 .. n - 1 |-> Op(a[i], b[i])]
WNot(a) == [i \in 0 .. n - 1 |-> Bits \ a[i]]

\* BitsIter::next repeated until None: returns the sequence of yielded indices
RECURSIVE IterFrom(_, _)
IterFrom(w, idx) ==
    LET RECURSIVE Skip(_)
        \* while idx < len*64 && (data[idx/64] >> (idx%64)) == 0 { idx = (idx + 64) & !63 }
        Skip(i) == IF i < n * 64 /\ Shr(w[i \div 64], i % 64) = {} THEN Skip(((i + 64) \div 64) * 64) ELSE i
        j == Skip(idx)
    IN IF j >= n * 64 THEN <<>>
       ELSE LET k == j + MinOf(Shr(w[j \div 64], j % 64))      \* idx += trailing_zeros(...)
            IN <<k>> \o IterFrom(w, k + 1)                       \* idx += 1; Some(idx - 1)
WIter(w) == IterFrom(w, 0)

(* ---- lockstep ---------------------------------------------------------------- *)
And2(a, b) == a \cap b
Or2(a, b)  == a \cup b
Xor2(a, b) == (a \ b) \cup (b \ a)

WSNext(o) ==
    CASE o.op = "set"    -> WSet(ws, o.x)
      [] o.op = "remove" -> WRemove(ws, o.x)
      [] o.op = "flip"   -> WFlip(ws, o.x)
      [] o.op = "clear"  -> ZeroWords(n)
      [] o.op = "from_u64" -> WFromU64(SeqToSet(o.w))
      [] o.op \in {"and", "and_assign"} -> WZip(ws, wt, And2)
      [] o.op \in {"or", "or_assign"}   -> WZip(ws, wt, Or2)
      [] o.op \in {"xor", "xor_assign"} -> WZip(ws, wt, Xor2)
      [] o.op = "not"    -> WNot(ws)
      [] o.op = "and_self" -> WZip(ws, ws, And2)
      [] o.op = "or_self"  -> WZip(ws, ws, Or2)
      [] o.op = "xor_self" -> WZip(ws, ws, Xor2)
      [] OTHER -> ws
WTNext(o) ==
    CASE o.op = "t_set"  -> WSet(wt, o.x)
      [] o.op = "t_flip" -> WFlip(wt, o.x)
      [] o.op = "t_copy" -> ws
      [] OTHER -> wt

Step(o) == AStep(o) /\ ws' = WSNext(o) /\ wt' = WTNext(o)

(* ---- refinement -------------------------------------------------------------------- *)
SetOfWords(w) == UNION {{64 * i + p : p \in w[i]} : i \in 0 .. n - 1}
Refines ==
    /\ SetOfWords(ws) = s /\ SetOfWords(wt) = t
    /\ WIter(ws) = IterResult
    /\ WCount(ws) = CountResult
    /\ (ws = wt) = EqResult
=============================================================================
