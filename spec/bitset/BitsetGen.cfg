SPECIFICATION GSpec
CONSTANT Cap = 2
CONSTANT Univ = {0, 1, 62, 63, 64, 65, 126, 127, 128, 191}
CONSTANT SubUniv = {0, 63, 64, 127, 191}
VIEW View
INVARIANT Refines
INVARIANT EmitState
CHECK_DEADLOCK FALSE
