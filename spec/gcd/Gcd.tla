-------------------------------- MODULE Gcd --------------------------------
(***************************************************************************)
(* (A) Number-theoretic definitions for rlib_gcd (C11), on exact integers. *)
(* Native-integer versions for the exhaustive small cubes; relations with  *)
(* witnesses on BigInt for large operands (no division is computed).       *)
(***************************************************************************)
EXTENDS BigNat, FiniteSets

AbsN(x) == IF x < 0 THEN 0 - x ELSE x
DividesN(d, x) == IF d = 0 THEN x = 0 ELSE x % AbsN(d) = 0
MaxN(x, y) == IF x > y THEN x ELSE y
\* g is the non-negative greatest common divisor of a and b (gcd(0,0) = 0): it divides both and every
\* common divisor divides it
IsGcdN(g, a, b) ==
    /\ g >= 0 /\ DividesN(g, a) /\ DividesN(g, b)
    /\ \A d \in 1 .. MaxN(AbsN(a), AbsN(b)) : (DividesN(d, a) /\ DividesN(d, b)) => DividesN(d, g)
\* the definition tabulated once for the small range used by the exhaustive checks
KSmall == 40
GcdTab == [p \in (0 - KSmall .. KSmall) \X (0 - KSmall .. KSmall) |->
              CHOOSE g \in 0 .. MaxN(AbsN(p[1]), AbsN(p[2])) : IsGcdN(g, p[1], p[2])]
GcdN(a, b) == GcdTab[<<a, b>>]
\* the non-negative least common multiple ((a,b) # (0,0))
LcmN(a, b) == IF a = 0 \/ b = 0 THEN 0 ELSE (AbsN(a) \div GcdN(a, b)) * AbsN(b)

\* egcd(a, b, c): Some(x, y) with a*x + b*y = c exactly when gcd(a,b) divides c
EgcdOKN(a, b, c, res) ==
    IF DividesN(GcdN(a, b), c)
    THEN res.some /\ a * res.x + b * res.y = c
    ELSE ~res.some

\* crt(a1, m1, a2, m2): the unique z in [0, lcm) with z = a_i (mod m_i) when compatible, none otherwise
CrtOKN(a1, m1, a2, m2, res) ==
    IF DividesN(GcdN(m1, m2), a2 - a1)
    THEN res.some /\ res.z >= 0 /\ res.z < LcmN(m1, m2) /\ (res.z - a1) % m1 = 0 /\ (res.z - a2) % m2 = 0
    ELSE ~res.some

(* ---- BigInt relations ------------------------------------------------------ *)
\* g = gcd(a, b): g >= 0 divides both (cofactors ca, cb) and is an integer combination (s, t)
IsGcdB(g, a, b, ca, cb, sw, tw) ==
    /\ ~g.neg
    /\ BIEq(a, BIMul(g, ca)) /\ BIEq(b, BIMul(g, cb))
    /\ BIEq(BIAdd(BIMul(sw, a), BIMul(tw, b)), g)
\* c = g*k + rem with 0 < rem < g: g does not divide c
NotDividesB(g, c, k, rem) == BIEq(c, BIAdd(BIMul(g, k), rem)) /\ BISign(rem) = 1 /\ BICmp(rem, g) < 0
DividesB(g, c, k) == BIEq(c, BIMul(g, k))
=============================================================================
