------------------------------ MODULE GcdTrace ------------------------------
(***************************************************************************)
(* Implementation -> spec for C11.                                         *)
(*   tab{fn,ty,lo,hi,rows}   gcd / lcm of all pairs lo..hi for one integer *)
(*                           type (rows[a-lo+1][b-lo+1]; -1 marks a pair   *)
(*                           outside the quantifier)                       *)
(*   cube{k,rows}            egcd(a,b,c) for all |a|,|b|,|c| <= k,         *)
(*                           (a,b) # (0,0): rows[..] = [some,x,y]          *)
(*   crttab{k,rows}          crt(a1,m1,a2,m2) for all 1 <= m1,m2 <= k and  *)
(*                           reduced residues: rows = [a1,m1,a2,m2,some,z] *)
(*   big{fn,...}             sampled large operands with witnesses         *)
(***************************************************************************)
EXTENDS Gcd, TraceLib

VARIABLE l

I(v) == BI(v.neg, v.mag)

BadTab(e) ==
    {<<a, b>> \in (e.lo .. e.hi) \X (e.lo .. e.hi) :
        LET got == e.rows[a - e.lo + 1][b - e.lo + 1]
        IN got # -1 /\ got # (IF e.fn = "gcd" THEN GcdN(a, b) ELSE LcmN(a, b))}

BadCube(e) ==
    {i \in 1 .. Len(e.rows) :
        LET r == e.rows[i] IN ~EgcdOKN(r[1], r[2], r[3], [some |-> r[4] = 1, x |-> r[5], y |-> r[6]])}

BadCrt(e) ==
    {i \in 1 .. Len(e.rows) :
        LET r == e.rows[i] IN ~CrtOKN(r[1], r[2], r[3], r[4], [some |-> r[5] = 1, z |-> r[6]])}

BigOK(e) ==
    CASE e.fn = "gcd" -> IsGcdB(I(e.res), I(e.a), I(e.b), I(e.w_ca), I(e.w_cb), I(e.w_s), I(e.w_t))
      [] e.fn = "lcm" ->
            \* l >= 0 and l * g = |a*b| where g is the (witnessed) gcd
            /\ IsGcdB(I(e.w_g), I(e.a), I(e.b), I(e.w_ca), I(e.w_cb), I(e.w_s), I(e.w_t))
            /\ ~I(e.res).neg
            /\ BIEq(BIMul(I(e.res), I(e.w_g)), BIAbs(BIMul(I(e.a), I(e.b))))
      [] e.fn = "egcd" ->
            /\ IsGcdB(I(e.w_g), I(e.a), I(e.b), I(e.w_ca), I(e.w_cb), I(e.w_s), I(e.w_t))
            /\ IF e.some
               THEN BIEq(BIAdd(BIMul(I(e.a), I(e.x)), BIMul(I(e.b), I(e.y))), I(e.c))
               ELSE NotDividesB(I(e.w_g), I(e.c), I(e.w_k), I(e.w_rem))
            \* Some exactly when solvable: a claimed None must come with a proof of non-divisibility (above);
            \* a Some is verified directly
      [] e.fn = "crt" ->
            /\ IsGcdB(I(e.w_g), I(e.m1), I(e.m2), I(e.w_ca), I(e.w_cb), I(e.w_s), I(e.w_t))
            /\ IF e.some
               THEN /\ BISign(I(e.z)) >= 0
                    \* z < lcm:  z * g < m1 * m2
                    /\ BICmp(BIMul(I(e.z), I(e.w_g)), BIMul(I(e.m1), I(e.m2))) < 0
                    /\ DividesB(I(e.m1), BISub(I(e.z), I(e.a1)), I(e.w_k1))
                    /\ DividesB(I(e.m2), BISub(I(e.z), I(e.a2)), I(e.w_k2))
               ELSE NotDividesB(I(e.w_g), BISub(I(e.a2), I(e.a1)), I(e.w_k), I(e.w_rem))

Init == l = 1

Step(e) ==
    IF "panic" \in DOMAIN e THEN Mismatch(l, [ev |-> e.ev, fn |-> e.fn, panic |-> e.panic], "must not panic")
    ELSE CASE e.ev = "tab" -> LET B == BadTab(e) IN (B # {}) => Mismatch(l, [ev |-> "tab", fn |-> e.fn, ty |-> e.ty], [wrong_pairs |-> B])
           [] e.ev = "cube" -> LET B == BadCube(e) IN (B # {}) => Mismatch(l, [ev |-> "cube", fn |-> "egcd", ty |-> e.ty], [wrong_rows |-> {e.rows[i] : i \in B}])
           [] e.ev = "crttab" -> LET B == BadCrt(e) IN (B # {}) => Mismatch(l, [ev |-> "crttab", fn |-> "crt", ty |-> e.ty], [wrong_rows |-> {e.rows[i] : i \in B}])
           [] e.ev = "big" -> (~BigOK(e)) => Mismatch(l, e, "result does not satisfy the number-theoretic definition")
           [] OTHER -> TRUE

Next == l <= Len(Rec) /\ Step(Rec[l]) /\ l' = l + 1
Spec == Init /\ [][Next]_l

Accepted == TLCGet("stats").diameter = Len(Rec) + 1
            \/ PrintT("INCOMPLETE " \o ToString(TLCGet("stats").diameter) \o " of " \o ToString(Len(Rec) + 1))
=============================================================================
