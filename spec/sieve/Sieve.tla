------------------------------- MODULE Sieve -------------------------------
(***************************************************************************)
(* (A) Arithmetic definitions behind rlib_sieve::Sieve (C13), tabulated    *)
(* once up to KMax.  The tables are built as concrete sequences (TLC       *)
(* function constructors are evaluated lazily at every application, a      *)
(* sequence built with Append is a value).                                 *)
(***************************************************************************)
EXTENDS Integers, Sequences, FiniteSets

KMax == 4000

\* least prime factor = least divisor >= 2 (trial division up to the square root)
RECURSIVE LpfFrom(_, _)
LpfFrom(n, p) == IF p * p > n THEN n ELSE IF n % p = 0 THEN p ELSE LpfFrom(n, p + 1)
LpfDef(n) == LpfFrom(n, 2)
IsPrimeDef(n) == n >= 2 /\ LpfDef(n) = n

\* MnpExpected[n + 1] = 0 for n < 2, else the least prime factor of n
RECURSIVE BuildMnp(_, _)
BuildMnp(n, acc) == IF n > KMax THEN acc ELSE BuildMnp(n + 1, Append(acc, IF n < 2 THEN 0 ELSE LpfDef(n)))
MnpExpected == BuildMnp(0, <<>>)
Lpf(n) == MnpExpected[n + 1]

RECURSIVE BuildIsp(_, _)
BuildIsp(n, acc) == IF n > KMax THEN acc ELSE BuildIsp(n + 1, Append(acc, n >= 2 /\ MnpExpected[n + 1] = n))
IspExpected == BuildIsp(0, <<>>)

RECURSIVE PrimesFrom(_, _)
PrimesFrom(n, acc) == IF n > KMax THEN acc ELSE PrimesFrom(n + 1, IF IspExpected[n + 1] THEN Append(acc, n) ELSE acc)
AllPrimes == PrimesFrom(2, <<>>)

\* PiTab[N + 1] = number of primes <= N
RECURSIVE BuildPi(_, _, _)
BuildPi(n, cnt, acc) == IF n > KMax THEN acc
                        ELSE LET c == IF IspExpected[n + 1] THEN cnt + 1 ELSE cnt IN BuildPi(n + 1, c, Append(acc, c))
PiTab == BuildPi(0, 0, <<>>)
PrimesUpTo(N) == SubSeq(AllPrimes, 1, PiTab[N + 1])

\* factorisation: strictly increasing primes with exact exponents; nothing for 1
RECURSIVE StripPow(_, _, _)
StripPow(n, p, c) == IF n % p = 0 THEN StripPow(n \div p, p, c + 1) ELSE <<n, c>>
RECURSIVE FactDef(_)
FactDef(n) == IF n = 1 THEN <<>>
              ELSE LET p == Lpf(n) s == StripPow(n, p, 0) IN <<<<p, s[2]>>>> \o FactDef(s[1])
RECURSIVE BuildFact(_, _)
BuildFact(n, acc) == IF n > KMax THEN acc ELSE BuildFact(n + 1, Append(acc, FactDef(n)))
FactTab == BuildFact(1, <<>>)
=============================================================================
