----------------------------- MODULE SieveTrace -----------------------------
(***************************************************************************)
(* Implementation -> spec for C13.                                         *)
(*   sieve{N,mnp,isp,primes}     complete tables of Sieve::new(N) read     *)
(*                               through min_prime / is_prime / primes     *)
(*   fact{N,from,rows}           factorize(n) for n = from .. from+len-1   *)
(*   bigsample{N,rows}           N = 1e6 / 1e7: rows [n, mnp, isp, fact]   *)
(*   bigprimes{N,len,pairs}      length of the prime list and sampled      *)
(*                               consecutive entries [i, p_i, p_{i+1}]     *)
(***************************************************************************)
EXTENDS Sieve, TraceLib

VARIABLE l

\* ---- large limits: trial division by the tabulated primes (all primes <= KMax >= sqrt(1e7)) ----
NoSmallFactorBelow(n, p) == \A i \in 1 .. Len(AllPrimes) : (AllPrimes[i] < p /\ AllPrimes[i] * AllPrimes[i] <= n) => n % AllPrimes[i] # 0
IsPrimeBig(n) == n >= 2 /\ NoSmallFactorBelow(n, n)
IsLpfBig(n, p) == p >= 2 /\ n % p = 0 /\ IsPrimeBig(p) /\ NoSmallFactorBelow(n, p)

RECURSIVE FactOKBig(_, _, _)
\* fs: claimed factorisation of n; prev: previous prime
FactOKBig(n, fs, prev) ==
    IF fs = <<>> THEN n = 1
    ELSE LET p == fs[1][1] c == fs[1][2] s == StripPow(n, p, 0)
         IN p > prev /\ c >= 1 /\ IsLpfBig(n, p) /\ s[2] = c /\ FactOKBig(s[1], Tail(fs), p)

BigRowOK(r) ==
    LET n == r[1] IN
    /\ (IF n < 2 THEN r[2] = 0 /\ ~r[3] ELSE IsLpfBig(n, r[2]) /\ (r[3] = (r[2] = n)))
    /\ (n >= 1 => FactOKBig(n, r[4], 1))

\* pi(1e6), pi(1e7): constants of arithmetic
PiKnown(N) == CASE N = 1000000 -> 78498 [] N = 2000000 -> 148933 [] N = 10000000 -> 664579 [] OTHER -> -1

PairOK(p) == p[2] < p[3] /\ IsPrimeBig(p[2]) /\ IsPrimeBig(p[3]) /\ \A x \in p[2] + 1 .. p[3] - 1 : ~IsPrimeBig(x)

Init == l = 1

Step(e) ==
    IF "panic" \in DOMAIN e THEN Mismatch(l, [ev |-> e.ev, N |-> e.N, panic |-> e.panic], "must not panic")
    ELSE CASE e.ev = "sieve" ->
                LET ok == /\ e.mnp = SubSeq(MnpExpected, 1, e.N + 1)
                          /\ e.isp = SubSeq(IspExpected, 1, e.N + 1)
                          /\ e.primes = PrimesUpTo(e.N)
                IN (~ok) => Mismatch(l, [ev |-> "sieve", N |-> e.N],
                                     [first_wrong_min_prime |-> {i - 1 : i \in {j \in 1 .. Len(e.mnp) : j > e.N + 1 \/ e.mnp[j] # MnpExpected[j]}},
                                      primes_expected |-> Len(PrimesUpTo(e.N)), primes_got |-> Len(e.primes)])
           [] e.ev = "fact" ->
                LET B == {i \in 1 .. Len(e.rows) : e.rows[i] # FactTab[e.from + i - 1]}
                IN (B # {}) => Mismatch(l, [ev |-> "fact", N |-> e.N], [wrong_n |-> {e.from + i - 1 : i \in B}])
           [] e.ev = "factit" ->
                \* the same enumeration through Iterator's other entry points: functions of the list
                LET Opt(sq, i) == IF i >= 1 /\ i <= Len(sq) THEN <<sq[i]>> ELSE <<>>
                    Odd(sq) == [k \in 1 .. ((Len(sq) + 1) \div 2) |-> sq[2 * k - 1]]
                    RowOK(r) == LET ls == r[2] IN
                        /\ ls = FactTab[r[1]]
                        /\ r[3] = Opt(ls, Len(ls)) /\ r[4] = Len(ls) /\ r[5] = Opt(ls, 2) /\ r[6] = Opt(ls, 3)
                        /\ r[7] = (IF ls = <<>> THEN <<>> ELSE Tail(ls)) /\ r[8] = Odd(ls)
                    B == {i \in 1 .. Len(e.rows) : ~RowOK(e.rows[i])}
                IN (B # {}) => Mismatch(l, [ev |-> "factit", N |-> e.N], [wrong_rows |-> {e.rows[i] : i \in B}])
           [] e.ev = "bigsample" ->
                LET B == {i \in 1 .. Len(e.rows) : ~BigRowOK(e.rows[i])}
                IN (B # {}) => Mismatch(l, [ev |-> "bigsample", N |-> e.N], [wrong_rows |-> {e.rows[i] : i \in B}])
           [] e.ev = "bigprimes" ->
                /\ (PiKnown(e.N) # -1 /\ e.len # PiKnown(e.N)) => Mismatch(l, [ev |-> "bigprimes", N |-> e.N, len |-> e.len], [pi |-> PiKnown(e.N)])
                \* the list ends with the largest prime <= N (limits whose prime count is not a tabulated constant)
                /\ ("last" \in DOMAIN e /\ ~(e.last <= e.N /\ IsPrimeBig(e.last) /\ \A x \in e.last + 1 .. e.N : ~IsPrimeBig(x))) =>
                       Mismatch(l, [ev |-> "bigprimes", N |-> e.N, last |-> e.last], "the prime list does not end with the largest prime <= N")
                /\ LET B == {i \in 1 .. Len(e.pairs) : ~PairOK(e.pairs[i])}
                   IN (B # {}) => Mismatch(l, [ev |-> "bigprimes", N |-> e.N], [not_consecutive_primes |-> {e.pairs[i] : i \in B}])
           [] OTHER -> TRUE

Next == l <= Len(Rec) /\ Step(Rec[l]) /\ l' = l + 1
Spec == Init /\ [][Next]_l

Accepted == TLCGet("stats").diameter = Len(Rec) + 1
            \/ PrintT("INCOMPLETE " \o ToString(TLCGet("stats").diameter) \o " of " \o ToString(Len(Rec) + 1))
=============================================================================
