---------------------------- MODULE RationalTrace ----------------------------
(***************************************************************************)
(* Implementation -> spec for C07.                                         *)
(*   box{ty,k,rows}   for every a/b, c/d with |.| <= k and non-zero        *)
(*       denominators of either sign: one row                              *)
(*       [a,b,c,d, x, y, add3, sub3, mul3, div3, cmp, eq, hasheq, lt, le]  *)
(*       x, y = Rational::new(a,b), new(c,d); add3 etc. = the results of   *)
(*       the by-value, by-reference and assigning forms (three pairs);     *)
(*       div3 = <<>> when c = 0                                            *)
(*   unary{ty,k,rows}   [a,b, new, neg, floor, ceil] for every a/b         *)
(*   big{...}           sampled large operands, BigInt + Bezout witnesses  *)
(***************************************************************************)
EXTENDS Rational, TraceLib, FiniteSets

VARIABLE l

RowOK(r) ==
    LET a == r[1] b == r[2] c == r[3] d == r[4] x == r[5] y == r[6]
        All3(t, Ok(_)) == \A i \in 1 .. 3 : Ok(t[i])
        c0 == CmpN(a, b, c, d)
    IN /\ NewOKN(a, b, x) /\ NewOKN(c, d, y)
       /\ All3(r[7], LAMBDA z : AddOKN(a, b, c, d, z))
       /\ All3(r[8], LAMBDA z : SubOKN(a, b, c, d, z))
       /\ All3(r[9], LAMBDA z : MulOKN(a, b, c, d, z))
       /\ (c # 0 => All3(r[10], LAMBDA z : DivOKN(a, b, c, d, z)))
       /\ r[11] = c0                                  \* cmp is the numeric order
       /\ r[12] = (c0 = 0)                            \* == coincides with numeric equality
       /\ (c0 = 0 => r[13])                           \* equal values hash equally
       /\ r[14] = (c0 < 0) /\ r[15] = (c0 <= 0)       \* <, <= consistent with cmp

UnaryOK(r) ==
    LET a == r[1] b == r[2]
    IN NewOKN(a, b, r[3]) /\ NegOKN(a, b, r[4]) /\ FloorOKN(a, b, r[5]) /\ CeilOKN(a, b, r[6])

I(v) == BI(v.neg, v.mag)
R(v) == [n |-> I(v.n), d |-> I(v.d)]

BigOK(e) ==
    LET x == R(e.x) y == R(e.y) z == R(e.z)
        canon == CanonB(z, I(e.w_s), I(e.w_t))
    IN CASE e.op \in {"add", "add_ref", "add_assign"} -> canon /\ ValueIsB(z, SumB(x.n, x.d, y.n, y.d), BIMul(x.d, y.d))
         [] e.op \in {"sub", "sub_ref", "sub_assign"} -> canon /\ ValueIsB(z, DiffB(x.n, x.d, y.n, y.d), BIMul(x.d, y.d))
         [] e.op \in {"mul", "mul_ref", "mul_assign"} -> canon /\ ValueIsB(z, BIMul(x.n, y.n), BIMul(x.d, y.d))
         [] e.op \in {"div", "div_ref", "div_assign"} -> canon /\ ValueIsB(z, BIMul(x.n, y.d), BIMul(x.d, y.n))
         [] e.op = "new" -> canon /\ ValueIsB(z, x.n, x.d)             \* x = the raw pair handed to new
         [] e.op = "neg" -> canon /\ ValueIsB(z, BINeg(x.n), x.d)
         [] e.op = "floor" -> BIEq(z.d, BIFromInt(1)) /\ FloorOKB(x.n, x.d, z.n)
         [] e.op = "ceil" -> BIEq(z.d, BIFromInt(1)) /\ CeilOKB(x.n, x.d, z.n)
         [] e.op = "cmp" -> /\ e.cmp = CmpB(x.n, x.d, y.n, y.d)
                            /\ e.eq = (e.cmp = 0) /\ (e.cmp = 0 => e.hasheq)

Init == l = 1

Step(e) ==
    IF "panic" \in DOMAIN e THEN Mismatch(l, [ev |-> e.ev, op |-> e.op, ty |-> e.ty, panic |-> e.panic], "must not panic")
    ELSE CASE e.ev = "box" ->
                LET B == {i \in 1 .. Len(e.rows) : ~RowOK(e.rows[i])}
                IN (B # {}) => Mismatch(l, [ev |-> "box", op |-> "binary", ty |-> e.ty], [wrong_rows |-> {e.rows[i] : i \in B}])
           [] e.ev = "unary" ->
                LET B == {i \in 1 .. Len(e.rows) : ~UnaryOK(e.rows[i])}
                IN (B # {}) => Mismatch(l, [ev |-> "unary", op |-> "unary", ty |-> e.ty], [wrong_rows |-> {e.rows[i] : i \in B}])
           [] e.ev = "big" -> (~BigOK(e)) => Mismatch(l, e, "result is not the exact canonical rational")
           [] OTHER -> TRUE

Next == l <= Len(Rec) /\ Step(Rec[l]) /\ l' = l + 1
Spec == Init /\ [][Next]_l

Accepted == TLCGet("stats").diameter = Len(Rec) + 1
            \/ PrintT("INCOMPLETE " \o ToString(TLCGet("stats").diameter) \o " of " \o ToString(Len(Rec) + 1))
=============================================================================
