------------------------------ MODULE Rational ------------------------------
(***************************************************************************)
(* (A) Specification of rlib_rational::Rational<T> (C07): exact rational   *)
(* arithmetic in canonical form.  A rational is a pair <<num, den>>.       *)
(* Everything is defined by cross-multiplication on exact integers (no     *)
(* division): z is the sum of a/b and c/d iff  z.num*(b*d) = z.den*(a*d +  *)
(* c*b)  and z is canonical (den > 0, gcd(num, den) = 1).  Native-integer  *)
(* versions for the exhaustive box, BigInt versions (coprimality by a      *)
(* Bezout witness) for sampled large operands.                             *)
(***************************************************************************)
EXTENDS BigNat

AbsN(x) == IF x < 0 THEN 0 - x ELSE x
SignN(x) == IF x < 0 THEN -1 ELSE IF x > 0 THEN 1 ELSE 0
MinN(x, y) == IF x < y THEN x ELSE y
CoprimeN(x, y) == ~\E d \in 2 .. MinN(AbsN(x), AbsN(y)) : x % d = 0 /\ y % d = 0
\* gcd(0, y) = |y|: 0/y is canonical only as 0/1
CanonN(z) == z[2] > 0 /\ (IF z[1] = 0 THEN z[2] = 1 ELSE CoprimeN(z[1], z[2]))

\* z denotes the value n/m (m # 0)
ValueIsN(z, n, m) == z[1] * m = n * z[2]

NewOKN(a, b, z)          == CanonN(z) /\ ValueIsN(z, a, b)
AddOKN(a, b, c, d, z)    == CanonN(z) /\ ValueIsN(z, a * d + c * b, b * d)
SubOKN(a, b, c, d, z)    == CanonN(z) /\ ValueIsN(z, a * d - c * b, b * d)
MulOKN(a, b, c, d, z)    == CanonN(z) /\ ValueIsN(z, a * c, b * d)
DivOKN(a, b, c, d, z)    == CanonN(z) /\ ValueIsN(z, a * d, b * c)          \* c # 0
NegOKN(a, b, z)          == CanonN(z) /\ ValueIsN(z, 0 - a, b)
\* numeric order of a/b and c/d: -1, 0, 1
CmpN(a, b, c, d)         == SignN(a * d - c * b) * SignN(b) * SignN(d)
\* greatest integer <= a/b, least integer >= a/b (as canonical rationals f/1)
FloorOKN(a, b, z) == LET p == a * SignN(b) q == AbsN(b) IN z[2] = 1 /\ z[1] * q <= p /\ p < (z[1] + 1) * q
CeilOKN(a, b, z)  == LET p == a * SignN(b) q == AbsN(b) IN z[2] = 1 /\ (z[1] - 1) * q < p /\ p <= z[1] * q

(* ---- BigInt versions ---------------------------------------------------------- *)
\* a rational is [n |-> BigInt, d |-> BigInt]; coprimality of n and d by the witness s*n + t*d = 1
CanonB(z, sw, tw) ==
    /\ BISign(z.d) = 1
    /\ BIEq(BIAdd(BIMul(sw, z.n), BIMul(tw, z.d)), BIFromInt(1))
ValueIsB(z, n, m) == BIEq(BIMul(z.n, m), BIMul(n, z.d))
SumB(a, b, c, d)  == BIAdd(BIMul(a, d), BIMul(c, b))
DiffB(a, b, c, d) == BISub(BIMul(a, d), BIMul(c, b))
CmpB(a, b, c, d)  == BISign(DiffB(a, b, c, d)) * BISign(b) * BISign(d)
FloorOKB(a, b, f) ==     \* b > 0 (canonical operand)
    /\ BICmp(BIMul(f, b), a) <= 0
    /\ BICmp(a, BIMul(BIAdd(f, BIFromInt(1)), b)) < 0
CeilOKB(a, b, f) ==
    /\ BICmp(BIMul(BISub(f, BIFromInt(1)), b), a) < 0
    /\ BICmp(a, BIMul(f, b)) <= 0
=============================================================================
