------------------------------ MODULE MC_Reader ------------------------------
(* All inputs over Alphabet up to MaxLen bytes, all source behaviours, all scripts. *)
EXTENDS ReaderImpl

CONSTANTS Alphabet, MaxLen, MaxEintr

RECURSIVE SeqsUpTo(_)
SeqsUpTo(k) == IF k = 0 THEN {<<>>} ELSE LET S == SeqsUpTo(k - 1) IN S \cup {Append(s, c) : s \in {x \in S : Len(x) = k - 1}, c \in Alphabet}

Init ==
    /\ inp \in SeqsUpTo(MaxLen)
    /\ pos = 0
    /\ \E e \in 0 .. MaxEintr : b = FreshB(e)
    /\ ok = TRUE

DoStr   == \E o \in RunB("str", b)   : Call("str", o)
DoChar  == \E o \in RunB("char", b)  : Call("char", o)
DoInt   == \E o \in RunB("int", b)   : Call("int", o)
DoUint  == \E o \in RunB("uint", b)  : Call("uint", o)
DoEof   == \E o \in RunB("eof", b)   : Call("eof", o)
DoLine  == \E o \in RunB("line", b)  : Call("line", o)
DoLines == \E o \in RunB("lines", b) : Call("lines", o)

Next == DoStr \/ DoChar \/ DoInt \/ DoUint \/ DoEof \/ DoLine \/ DoLines

Spec == Init /\ [][Next]_vars
=============================================================================
