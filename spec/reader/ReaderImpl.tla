----------------------------- MODULE ReaderImpl -----------------------------
(***************************************************************************)
(* (B) Implementation-shaped model of rlib_io::Reader (rlib/io/src/        *)
(* reader.rs) in lockstep with the abstract specification (A).             *)
(*                                                                         *)
(* b is the reader object plus its environment:                            *)
(*   buf, begin, end, eof   the struct fields (buffer *contents* are kept: *)
(*                          stale bytes matter)                            *)
(*   sp                     bytes the source has delivered so far          *)
(*   ei                     `Interrupted` errors the source may still raise*)
(*   log                    outcomes of the read() calls made during the   *)
(*                          current public call (k > 0 bytes, 0 =          *)
(*                          Interrupted, -1 = end of input)                *)
(*   acc, res, panic        locals of the running call                     *)
(*                                                                         *)
(* The source is adversarial: every read() nondeterministically delivers   *)
(* any number 1..min(space, remaining) of bytes or raises Interrupted.     *)
(* The procedures of the code are transcribed as set-valued recursive      *)
(* operators: the result is the set of all outcomes over all source        *)
(* behaviours.                                                             *)
(*                                                                         *)
(* RetryInterrupted / EofGuard select the repaired code (TRUE) or the code *)
(* as it was at the pinned commit (FALSE): `refill` unwrap()ing the        *)
(* Interrupted error, `read_line` trusting the stale byte peek() returns   *)
(* after end of input.                                                     *)
(***************************************************************************)
EXTENDS Reader, FiniteSets, TLC

CONSTANTS BUF, RetryInterrupted, EofGuard

VARIABLES inp, pos, b, ok
vars == <<inp, pos, b, ok>>

NoRes == [t |-> "none"]

FreshB(eintr) ==
    [buf |-> [i \in 0 .. BUF - 1 |-> 0], begin |-> 0, end |-> 0, eof |-> FALSE,
     sp |-> 0, ei |-> eintr, log |-> <<>>, acc |-> <<>>, res |-> NoRes, panic |-> FALSE]

MinI(x, y) == IF x < y THEN x ELSE y

(* ---- self.stdin.read(&mut self.buf[self.end..]) -------------------------- *)
RECURSIVE ReadSet(_)
ReadSet(st) ==
    LET space == BUF - st.end
        rem   == Len(inp) - st.sp
        m     == MinI(space, rem)
        deliver(k) == [st EXCEPT !.buf = [i \in 0 .. BUF - 1 |->
                                              IF i >= st.end /\ i < st.end + k THEN inp[st.sp + (i - st.end) + 1] ELSE st.buf[i]],
                                 !.end = st.end + k, !.sp = st.sp + k, !.log = Append(st.log, k)]
        zero == [st EXCEPT !.eof = TRUE, !.log = Append(st.log, -1)]
        intr == [st EXCEPT !.ei = st.ei - 1, !.log = Append(st.log, 0)]
    IN (IF m > 0 THEN {deliver(k) : k \in 1 .. m} ELSE {zero})
       \cup (IF st.ei > 0
             THEN (IF RetryInterrupted THEN ReadSet(intr) ELSE {[intr EXCEPT !.panic = TRUE]})
             ELSE {})

(* ---- fn refill ------------------------------------------------------------ *)
RefillSet(st) ==
    IF st.eof THEN {st}
    ELSE IF st.begin > st.end THEN {[st EXCEPT !.panic = TRUE]}      \* copy_within(begin..end) panics
    ELSE LET st1 == IF st.begin # 0
                    THEN [st EXCEPT !.buf = [i \in 0 .. BUF - 1 |->
                                                IF i < st.end - st.begin THEN st.buf[st.begin + i] ELSE st.buf[i]],
                                    !.end = st.end - st.begin, !.begin = 0]
                    ELSE st
         IN ReadSet(st1)

\* `if self.begin == self.end { self.refill(); }`
Fill(st) == IF st.panic THEN {st} ELSE IF st.begin = st.end THEN RefillSet(st) ELSE {st}

\* self.buf[self.begin] (index panic modelled)
At(st) == IF st.begin >= BUF THEN -1 ELSE st.buf[st.begin]

(* ---- fn peek: set of <<state, byte>> ------------------------------------- *)
PeekSet(st) == {<<s, At(s)>> : s \in Fill(st)}

(* ---- fn skip_whitespace ---------------------------------------------------- *)
RECURSIVE SkipB(_)
SkipB(st) ==
    UNION { IF s.panic THEN {s}
            ELSE IF ~s.eof /\ IsWs(At(s))
                 THEN UNION {SkipB(s2) : s2 \in Fill([s EXCEPT !.begin = s.begin + 1])}
                 ELSE {s}
            : s \in Fill(st) }

(* ---- token loop shared by String and the integer readers ----------------- *)
\* while { if begin == end { refill } ; !eof && !peek().is_ascii_whitespace() } { acc.push(peek()); begin += 1 }
RECURSIVE TokB(_)
TokB(st) ==
    UNION { IF s.panic THEN {s}
            ELSE IF ~s.eof /\ ~IsWs(At(s))
                 THEN TokB([s EXCEPT !.acc = Append(s.acc, At(s)), !.begin = s.begin + 1])
                 ELSE {s}
            : s \in Fill(st) }

StrB(st) == {[s EXCEPT !.res = [t |-> "s", v |-> s.acc]] : s \in UNION {TokB(s1) : s1 \in SkipB(st)}}

CharB(st) ==
    UNION { IF s.panic THEN {s}
            ELSE {[q[1] EXCEPT !.res = [t |-> "c", v |-> q[2]], !.begin = q[1].begin + 1] : q \in PeekSet(s)}
            : s \in SkipB(st) }

RECURSIVE Horner(_, _, _)
\* result = result * 10 (+|-) digit, over the digits of the token
Horner(digs, sign, accv) ==
    IF digs = <<>> THEN accv ELSE Horner(Tail(digs), sign, accv * 10 + sign * (Head(digs) - 48))

\* read_signed!: `if peek() == '-' { begin += 1; loop with - } else { loop with + }`
SignedB(st) ==
    UNION { IF s.panic THEN {s}
            ELSE UNION { IF q[2] = MINUS
                         THEN {[z EXCEPT !.res = [t |-> "i", v |-> Horner(z.acc, -1, 0)]]
                               : z \in TokB([q[1] EXCEPT !.begin = q[1].begin + 1])}
                         ELSE {[z EXCEPT !.res = [t |-> "i", v |-> Horner(z.acc, 1, 0)]] : z \in TokB(q[1])}
                         : q \in PeekSet(s) }
            : s \in SkipB(st) }

UnsignedB(st) ==
    {[z EXCEPT !.res = [t |-> "i", v |-> Horner(z.acc, 1, 0)]] : z \in UNION {TokB(s) : s \in SkipB(st)}}

EofB(st) == {[s EXCEPT !.res = [t |-> "b", v |-> s.eof]] : s \in SkipB(st)}

(* ---- fn read_line ----------------------------------------------------------- *)
RECURSIVE LineLoop(_, _)
\* rs = read_something
LineLoop(st, rs) ==
    UNION { IF s.panic THEN {s}
            ELSE IF s.eof THEN {[s EXCEPT !.res = IF rs THEN [t |-> "s", v |-> s.acc] ELSE NoRes]}
            ELSE LET c  == At(s)
                     s1 == [s EXCEPT !.acc = Append(s.acc, c), !.begin = s.begin + 1]
                     done(z) == [z EXCEPT !.res = [t |-> "s", v |-> SubSeq(z.acc, 1, Len(z.acc) - 1)]]
                 IN IF c = CR
                    THEN UNION { IF q[1].panic THEN {q[1]}
                                 ELSE IF q[2] = LF /\ (EofGuard => ~q[1].eof)
                                      THEN {done([q[1] EXCEPT !.begin = q[1].begin + 1])}
                                      ELSE LineLoop(q[1], TRUE)
                                 : q \in PeekSet(s1) }
                    ELSE IF c = LF THEN {done(s1)}
                    ELSE LineLoop(s1, TRUE)
            : s \in Fill(st) }

LineB(st) == LineLoop(st, FALSE)

RECURSIVE LinesB(_, _)
LinesB(st, sofar) ==
    UNION { IF s.panic THEN {s}
            ELSE IF s.res = NoRes THEN {[s EXCEPT !.res = [t |-> "ls", v |-> sofar]]}
            ELSE LinesB([s EXCEPT !.acc = <<>>, !.res = NoRes], Append(sofar, s.res.v))
            : s \in LineB(st) }

(* ---- the public calls: what (A) demands, what (B) does ---------------------- *)
Kinds == {"str", "char", "int", "uint", "eof", "line", "lines"}

EnabledA(k) ==
    CASE k = "str"  -> StrEnabled(inp, pos)
      [] k = "char" -> CharEnabled(inp, pos)
      [] k = "int"  -> HasToken(inp, pos) /\ IsSignedTok(Token(inp, pos))
      [] k = "uint" -> HasToken(inp, pos) /\ IsUnsignedTok(Token(inp, pos))
      [] OTHER -> TRUE

IntValue(tok) == IF tok[1] = MINUS THEN Horner(Tail(tok), -1, 0) ELSE Horner(tok, 1, 0)

ResultA(k) ==
    CASE k = "str"  -> [t |-> "s", v |-> StrResult(inp, pos)]
      [] k = "char" -> [t |-> "c", v |-> CharResult(inp, pos)]
      [] k = "int"  -> [t |-> "i", v |-> IntValue(Token(inp, pos))]
      [] k = "uint" -> [t |-> "i", v |-> IntValue(Token(inp, pos))]
      [] k = "eof"  -> [t |-> "b", v |-> EofResult(inp, pos)]
      [] k = "line" -> IF LineIsNone(inp, pos) THEN NoRes ELSE [t |-> "s", v |-> LineResult(inp, pos)]
      [] k = "lines" -> [t |-> "ls", v |-> Lines(inp, pos)]

NextA(k) ==
    CASE k = "str"  -> StrNext(inp, pos)
      [] k = "char" -> CharNext(inp, pos)
      [] k = "int"  -> IntNext(inp, pos)
      [] k = "uint" -> IntNext(inp, pos)
      [] k = "eof"  -> EofNext(inp, pos)
      [] k = "line" -> LineNext(inp, pos)
      [] k = "lines" -> Len(inp)

RunB(k, st) ==
    CASE k = "str"  -> StrB(st)
      [] k = "char" -> CharB(st)
      [] k = "int"  -> SignedB(st)
      [] k = "uint" -> UnsignedB(st)
      [] k = "eof"  -> EofB(st)
      [] k = "line" -> LineB(st)
      [] k = "lines" -> LinesB(st, <<>>)

Quiesce(o) == [o EXCEPT !.log = <<>>, !.acc = <<>>, !.res = NoRes]

\* one public call = one action; `ok` records whether (B) answered as (A) demands
Call(k, o) ==
    /\ EnabledA(k)
    /\ o \in RunB(k, b)
    /\ ok' = (~o.panic /\ o.res = ResultA(k))
    /\ b' = Quiesce(o)
    /\ pos' = NextA(k)
    /\ inp' = inp

TypeOK ==
    /\ pos \in 0 .. Len(inp)
    /\ b.begin \in 0 .. BUF /\ b.end \in 0 .. BUF /\ b.sp \in 0 .. Len(inp)

\* Refinement (C08): every outcome of every call, under every source behaviour, is the
\* function of (inp, pos) that (A) defines.
Refines == ok

\* structural invariants of (B) that explain why: the window holds exactly the
\* delivered-but-unconsumed bytes, and end of input is only believed once the window is empty
Window ==
    ~b.panic =>
        /\ b.begin <= b.end
        /\ b.sp - (b.end - b.begin) = pos
        /\ \A i \in b.begin .. b.end - 1 : b.buf[i] = inp[pos + (i - b.begin) + 1]
        /\ b.eof => (b.begin = b.end /\ b.sp = Len(inp))
=============================================================================
