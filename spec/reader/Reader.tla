------------------------------- MODULE Reader -------------------------------
(***************************************************************************)
(* (A) Abstract specification of rlib_io::Reader: every result is a        *)
(* function of the input bytes `inp` and the number of bytes consumed so   *)
(* far `pos` -- nothing else (no buffer, no chunks, no errors).            *)
(*                                                                         *)
(* Bytes are integers (ASCII codes).  Positions are 0-based counts: the    *)
(* next unread byte is inp[pos + 1].                                       *)
(***************************************************************************)
EXTENDS Integers, Sequences

\* u8::is_ascii_whitespace: space, \t, \n, form feed, \r  (not \v)
IsWs(c) == c \in {32, 9, 10, 12, 13}
IsDigit(c) == c >= 48 /\ c <= 57
LF == 10
CR == 13
MINUS == 45

RECURSIVE SkipWs(_, _)
SkipWs(inp, p) == IF p < Len(inp) /\ IsWs(inp[p + 1]) THEN SkipWs(inp, p + 1) ELSE p

RECURSIVE TokEnd(_, _)
TokEnd(inp, p) == IF p < Len(inp) /\ ~IsWs(inp[p + 1]) THEN TokEnd(inp, p + 1) ELSE p

\* a token starts at TokStart and ends before TokStop
TokStart(inp, p) == SkipWs(inp, p)
TokStop(inp, p)  == TokEnd(inp, SkipWs(inp, p))
HasToken(inp, p) == SkipWs(inp, p) < Len(inp)
Token(inp, p)    == SubSeq(inp, TokStart(inp, p) + 1, TokStop(inp, p))

AllDigits(s) == Len(s) > 0 /\ \A i \in 1 .. Len(s) : IsDigit(s[i])
IsUnsignedTok(s) == AllDigits(s)
IsSignedTok(s) == AllDigits(s) \/ (Len(s) > 1 /\ s[1] = MINUS /\ AllDigits(Tail(s)))

\* ---- results and next position of each call -------------------------------
\* read::<String>()
StrEnabled(inp, p) == HasToken(inp, p)
StrResult(inp, p)  == Token(inp, p)
StrNext(inp, p)    == TokStop(inp, p)

\* read::<char>()
CharEnabled(inp, p) == HasToken(inp, p)
CharResult(inp, p)  == inp[TokStart(inp, p) + 1]
CharNext(inp, p)    == TokStart(inp, p) + 1

\* read::<iN>() / read::<uN>(): the token text; its numeric value is defined by the
\* users of this module (native integers in the small model, BigNat in trace validation)
IntNext(inp, p) == TokStop(inp, p)

\* is_eof(): skips leading whitespace, true iff nothing else is left
EofResult(inp, p) == SkipWs(inp, p) = Len(inp)
EofNext(inp, p)   == SkipWs(inp, p)

\* read_line(): None exactly at end of input; otherwise the bytes up to (not
\* including) the next LF or CR LF; a CR not followed by LF -- also as the very
\* last byte -- belongs to the line.
RECURSIVE LineScan(_, _)
LineScan(inp, p) ==
    IF p >= Len(inp) THEN [stop |-> p, next |-> p]
    ELSE IF inp[p + 1] = LF THEN [stop |-> p, next |-> p + 1]
    ELSE IF inp[p + 1] = CR /\ p + 1 < Len(inp) /\ inp[p + 2] = LF THEN [stop |-> p, next |-> p + 2]
    ELSE LineScan(inp, p + 1)

LineIsNone(inp, p) == p >= Len(inp)
LineResult(inp, p) == SubSeq(inp, p + 1, LineScan(inp, p).stop)
LineNext(inp, p)   == LineScan(inp, p).next

\* read_lines(): all remaining lines
RECURSIVE Lines(_, _)
Lines(inp, p) == IF LineIsNone(inp, p) THEN <<>> ELSE <<LineResult(inp, p)>> \o Lines(inp, LineNext(inp, p))
=============================================================================
