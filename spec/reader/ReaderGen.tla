------------------------------ MODULE ReaderGen ------------------------------
(***************************************************************************)
(* Spec -> implementation for C08.  Explores the (A)+(B) state graph of    *)
(* MC_Reader and writes one replay case per transition: the input, and the *)
(* script so far -- for every call its kind, the source behaviour the      *)
(* model chose during that call (log of read() outcomes) and the result    *)
(* (A) demands.  hist is hidden from the fingerprint by the VIEW.          *)
(***************************************************************************)
EXTENDS MC_Reader, TraceLib

VARIABLE hist
gvars == <<inp, pos, b, ok, hist>>
View == vars

GInit == Init /\ hist = <<>>

Step(k) ==
    \E o \in RunB(k, b) :
        /\ Call(k, o)
        /\ hist' = Append(hist, [k |-> k, log |-> o.log, want |-> ResultA(k)])
        /\ Emit([buf |-> BUF, inp |-> inp, calls |-> hist'])

GStr   == Step("str")
GChar  == Step("char")
GInt   == Step("int")
GUint  == Step("uint")
GEof   == Step("eof")
GLine  == Step("line")
GLines == Step("lines")

GNext == GStr \/ GChar \/ GInt \/ GUint \/ GEof \/ GLine \/ GLines

GSpec == GInit /\ [][GNext]_gvars
=============================================================================
