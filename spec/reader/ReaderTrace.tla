----------------------------- MODULE ReaderTrace -----------------------------
(***************************************************************************)
(* Implementation -> spec for C08: a trace recorded from the real          *)
(* rlib_io::Reader (production 64 KiB buffer, adversarial source) is       *)
(* checked against the abstract specification (A): every logged result     *)
(* must be the function of (input bytes, bytes consumed) that module       *)
(* Reader defines.  Monitor style (see TraceLib).                          *)
(*                                                                         *)
(* events  reset{inp}              new reader over these bytes             *)
(*         str{res} char{res} eof{res} line{res|none} lines{res}           *)
(*         int{signed,neg,mag}     integer result as sign + 12-bit limbs   *)
(*                                 (bit slicing in the harness)            *)
(*         seq{items}              tuple / read_vec: items read in order   *)
(*         any event may carry panic: the call panicked                    *)
(* The input is not part of the state: `run` is the line of the current    *)
(* reset event and the bytes are looked up in the trace.                   *)
(***************************************************************************)
EXTENDS Reader, BigNat, TraceLib

VARIABLES run, pos, l
tvars == <<run, pos, l>>

Inp == Rec[run].inp

\* sign and magnitude of a decimal token
TokNeg(tok) == tok[1] = MINUS
TokMag(tok) == IF tok[1] = MINUS THEN BNFromDigits(Tail(tok)) ELSE BNFromDigits(tok)

\* what (A) demands for one simple call, in the shape the harness logs it
Want(e, p) ==
    CASE e.ev = "str"  -> [res |-> StrResult(Inp, p)]
      [] e.ev = "char" -> [res |-> CharResult(Inp, p)]
      [] e.ev = "eof"  -> [res |-> EofResult(Inp, p)]
      [] e.ev = "line" -> IF LineIsNone(Inp, p) THEN [none |-> TRUE] ELSE [none |-> FALSE, res |-> LineResult(Inp, p)]
      [] e.ev = "lines" -> [res |-> Lines(Inp, p)]
      [] e.ev = "int"  -> LET tok == Token(Inp, p)
                          IN IF HasToken(Inp, p) /\ IsSignedTok(tok)
                             THEN [neg |-> TokNeg(tok) /\ TokMag(tok) # <<>>, mag |-> TokMag(tok)]
                             ELSE [not_a_decimal_token |-> tok]

Agrees(e, w) ==
    CASE e.ev = "line" -> e.none = w.none /\ (~w.none => e.res = w.res)
      [] e.ev = "int"  -> e.neg = w.neg /\ e.mag = w.mag
      [] OTHER -> e.res = w.res

Enabled(e, p) ==
    CASE e.ev \in {"str", "char"} -> HasToken(Inp, p)
      [] e.ev = "int" -> HasToken(Inp, p) /\ (IF e.signed THEN IsSignedTok(Token(Inp, p)) ELSE IsUnsignedTok(Token(Inp, p)))
      [] OTHER -> TRUE

After(e, p) ==
    CASE e.ev = "str"  -> StrNext(Inp, p)
      [] e.ev = "char" -> CharNext(Inp, p)
      [] e.ev = "eof"  -> EofNext(Inp, p)
      [] e.ev = "line" -> LineNext(Inp, p)
      [] e.ev = "lines" -> Len(Inp)
      [] e.ev = "int"  -> IntNext(Inp, p)

Panicked(e) == "panic" \in DOMAIN e

\* judge one simple call at position p: TRUE iff fine
Judge(e, p) ==
    IF ~Enabled(e, p) THEN Mismatch(l, e, "harness bug: call outside the property's quantifier") /\ FALSE
    ELSE IF Panicked(e) THEN FALSE
    ELSE Agrees(e, Want(e, p))

RECURSIVE JudgeSeq(_, _, _)
\* items of a tuple / vector read, in order; returns <<all fine, position after>>
JudgeSeq(items, i, p) ==
    IF i > Len(items) THEN <<TRUE, p>>
    ELSE LET r == JudgeSeq(items, i + 1, After(items[i], p))
         IN <<Judge(items[i], p) /\ r[1], r[2]>>

RECURSIVE WantSeq(_, _, _)
WantSeq(items, i, p) ==
    IF i > Len(items) THEN <<>> ELSE <<Want(items[i], p)>> \o WantSeq(items, i + 1, After(items[i], p))

Init == run = 0 /\ pos = 0 /\ l = 1

Step(e) ==
    CASE e.ev = "reset" -> run' = l /\ pos' = 0
      [] e.ev = "seq" ->
            /\ (Panicked(e) \/ ~JudgeSeq(e.items, 1, pos)[1]) => Mismatch(l, e, WantSeq(e.items, 1, pos))
            /\ pos' = (IF Panicked(e) THEN pos ELSE JudgeSeq(e.items, 1, pos)[2]) /\ run' = run
      [] OTHER ->
            /\ (~Judge(e, pos)) => Mismatch(l, e, Want(e, pos))
            /\ pos' = After(e, pos) /\ run' = run

Next == l <= Len(Rec) /\ Step(Rec[l]) /\ l' = l + 1

Spec == Init /\ [][Next]_tvars

Accepted == TLCGet("stats").diameter = Len(Rec) + 1
            \/ PrintT("INCOMPLETE " \o ToString(TLCGet("stats").diameter) \o " of " \o ToString(Len(Rec) + 1))
=============================================================================
