SPECIFICATION GSpec
CONSTANT BUF = 4
CONSTANT RetryInterrupted = TRUE
CONSTANT EofGuard = TRUE
CONSTANT Alphabet = {49, 45, 32, 10, 13, 97}
CONSTANT MaxLen = 3
CONSTANT MaxEintr = 1
VIEW View
INVARIANT Refines
CHECK_DEADLOCK FALSE
