SPECIFICATION Spec
CONSTANT BUF = 3
CONSTANT RetryInterrupted = TRUE
CONSTANT EofGuard = TRUE
CONSTANT Alphabet = {49, 45, 32, 10, 13, 97}
CONSTANT MaxLen = 4
CONSTANT MaxEintr = 1
INVARIANT TypeOK
INVARIANT Refines
INVARIANT Window
CHECK_DEADLOCK FALSE
