------------------------------ MODULE Geometry ------------------------------
(***************************************************************************)
(* (A) Exact plane geometry for rlib_geometry (C10).  Every configuration  *)
(* the harness generates has dyadic coordinates, so it is an exact f64 for *)
(* the library and an exact integer for this specification: all quantities *)
(* are BigInt at the common scale U = 2^30 units per 1.0.                  *)
(*                                                                         *)
(* Kinds are decided by comparing squared integers.  The property only     *)
(* binds the kind away from the boundaries between kinds (the library      *)
(* works with a 1e-9 tolerance): here a configuration is judged when it is *)
(* EXACTLY on a boundary (tangent: the tangent kind is demanded, 0 < 1e-9) *)
(* or at least M = 2^-20 away from it (the exact kind is demanded);        *)
(* anything in between is not judged -- a band much wider than the         *)
(* library's tolerance, so the check never demands more than the property. *)
(* Returned points are always judged: on both primitives within 1e-7.      *)
(***************************************************************************)
EXTENDS BigNat

UBits == 30
\* 2^-20 at scale U
Margin == BI(FALSE, BNPow2(UBits - 20))
\* 2^-26 (1.5e-8) for a circle against a line, where the library's own measure is the plain distance |d - r| against
\* 1e-9 (for two circles it is the distance to the radical line, which is finer than the gap between the circles by the
\* factor small radius / centre distance: the wide band stays there)
MarginCL == BI(FALSE, BNPow2(UBits - 26))
\* 1e-7 at scale U is 107.4; one more unit covers the quantisation of the logged points
Tol == BIFromInt(109)

Sq(x) == BIMul(x, x)
Zero == BIZero
Lt(a, b) == BICmp(a, b) < 0
Le(a, b) == BICmp(a, b) <= 0
Dist2(p, q) == BIAdd(Sq(BISub(p[1], q[1])), Sq(BISub(p[2], q[2])))
Cross(u, v) == BISub(BIMul(u[1], v[2]), BIMul(u[2], v[1]))
Vec(p, q) == <<BISub(q[1], p[1]), BISub(q[2], p[2])>>
Len2(v) == BIAdd(Sq(v[1]), Sq(v[2]))

\* point p lies on the circle (c, r) within the tolerance
OnCircle(p, c, r) ==
    LET d2 == Dist2(p, c)
        lo == IF Lt(r, Tol) THEN Zero ELSE Sq(BISub(r, Tol))
    IN Le(lo, d2) /\ Le(d2, Sq(BIAdd(r, Tol)))
\* point p lies on the line through a and b within the tolerance
OnLine(p, a, b) == Le(Sq(Cross(Vec(a, p), Vec(a, b))), BIMul(Sq(Tol), Len2(Vec(a, b))))

(* ---- kinds ---------------------------------------------------------------- *)
\* "judged" kinds; "unjudged" when the configuration is inside the wide band around a boundary
CCKind(c1, r1, c2, r2) ==
    LET D == Dist2(c1, c2)
        R == BIAdd(r1, r2)
        Rd == BIAbs(BISub(r1, r2))
    IN IF BISign(D) = 0 THEN (IF BIEq(r1, r2) THEN "Same" ELSE IF Le(Margin, Rd) THEN "None" ELSE "unjudged")
       ELSE IF BIEq(D, Sq(R)) THEN "TouchOutside"
       ELSE IF BIEq(D, Sq(Rd)) THEN "TouchInside"
       ELSE IF Le(Sq(BIAdd(R, Margin)), D) THEN "None"
       ELSE IF Le(Margin, Rd) /\ Le(D, Sq(BISub(Rd, Margin))) THEN "None"
       ELSE IF Le(Sq(BIAdd(Rd, Margin)), D) /\ Le(Margin, R) /\ Le(D, Sq(BISub(R, Margin))) THEN "Intersect"
       ELSE "unjudged"

\* circle (c, r) against the line through a and b: compare cross^2 with r^2 * |ab|^2
CLKind(c, r, a, b) ==
    LET ab == Vec(a, b)
        X2 == Sq(Cross(Vec(a, c), ab))
        L2 == Len2(ab)
    IN IF BIEq(X2, BIMul(Sq(r), L2)) THEN "Touch"
       ELSE IF Le(BIMul(Sq(BIAdd(r, MarginCL)), L2), X2) THEN "None"
       ELSE IF Le(MarginCL, r) /\ Le(X2, BIMul(Sq(BISub(r, MarginCL)), L2)) THEN "Intersect"
       ELSE "unjudged"

\* two lines: parallel (also identical) -> no point; clearly crossing -> a point
LLKind(a, b, c, d) ==
    LET u == Vec(a, b) v == Vec(c, d)
        X2 == Sq(Cross(u, v))
    IN IF BISign(X2) = 0 THEN "None"
       \* |sin(angle)| >= 2^-20:  cross^2 * U^2 >= Margin^2 * |u|^2 |v|^2
       ELSE IF Le(BIMul(Sq(Margin), BIMul(Len2(u), Len2(v))), BIMul(X2, Sq(BI(FALSE, BNPow2(UBits))))) THEN "Point"
       ELSE "unjudged"

\* point against circle
PosKind(p, c, r) ==
    LET D == Dist2(p, c)
    IN IF BIEq(D, Sq(r)) THEN "Border"
       ELSE IF Le(Sq(BIAdd(r, Margin)), D) THEN "Outside"
       ELSE IF Le(Margin, r) /\ Le(D, Sq(BISub(r, Margin))) THEN "Inside"
       ELSE "unjudged"

\* point on line (Line::contains)
ContainsKind(p, a, b) ==
    LET ab == Vec(a, b) X2 == Sq(Cross(Vec(a, p), ab))
    IN IF BISign(X2) = 0 THEN "true"
       ELSE IF Le(BIMul(Sq(Margin), Len2(ab)), X2) THEN "false"
       ELSE "unjudged"
=============================================================================
