---------------------------- MODULE GeometryTrace ----------------------------
(***************************************************************************)
(* Implementation -> spec for C10.  The harness enumerates lattice         *)
(* configurations exhaustively (centres in a window, radii 1..6, lines     *)
(* through two lattice points: every tangency through Pythagorean triples  *)
(* is among them) and generates dyadic "real-valued" configurations and    *)
(* constructed tangencies at arbitrary positions; it logs the inputs as    *)
(* integers at scale 2^-s, the kind the library reported and the points it *)
(* returned as integers at scale 2^-30.  The specification decides the     *)
(* exact kind and whether every point lies on both primitives.             *)
(*   cc{s,c1,r1,c2,r2,kind,pts}  cl{s,c,r,a,b,kind,pts}                    *)
(*   ll{s,a,b,c,d,kind,pts}      pos{s,p,c,r,kind}   contains{s,p,a,b,kind}*)
(***************************************************************************)
EXTENDS Geometry, TraceLib

VARIABLE l
Init == l = 1

I(v) == BI(v.neg, v.mag)
\* an input coordinate at scale 2^-s, brought to scale U
Up(v, s) == LET x == I(v) IN BI(x.neg, BNShiftL(x.mag, UBits - s))
P(p, s) == <<Up(p[1], s), Up(p[2], s)>>
Pt(p) == <<I(p[1]), I(p[2])>>       \* returned points are logged at scale U

Arity(kind) == CASE kind \in {"None", "Same"} -> 0 [] kind \in {"Touch", "TouchInside", "TouchOutside", "Point"} -> 1 [] kind = "Intersect" -> 2

KindOK(got, want) == want = "unjudged" \/ got = want

Step(e) ==
    IF "panic" \in DOMAIN e THEN Mismatch(l, e, "must not panic")
    ELSE CASE e.ev = "cc" ->
                LET c1 == P(e.c1, e.s) c2 == P(e.c2, e.s) r1 == Up(e.r1, e.s) r2 == Up(e.r2, e.s)
                    want == CCKind(c1, r1, c2, r2)
                    ptsok == Len(e.pts) = Arity(e.kind) /\ \A i \in 1 .. Len(e.pts) : OnCircle(Pt(e.pts[i]), c1, r1) /\ OnCircle(Pt(e.pts[i]), c2, r2)
                IN /\ (want = "unjudged") => Note("configuration inside the wide band around a boundary between kinds: kind not judged")
                   /\ (~KindOK(e.kind, want)) => Mismatch(l, e, [exact_kind |-> want])
                   /\ (~ptsok) => Mismatch(l, e, "a reported point does not lie on both circles within 1e-7")
                   /\ ("pts_iter" \in DOMAIN e /\ e.pts_iter # e.pts) => Mismatch(l, e, "into_iter() does not yield exactly the variant's points")
           [] e.ev = "cl" ->
                LET c == P(e.c, e.s) r == Up(e.r, e.s) a == P(e.a, e.s) b == P(e.b, e.s)
                    want == CLKind(c, r, a, b)
                    ptsok == Len(e.pts) = Arity(e.kind) /\ \A i \in 1 .. Len(e.pts) : OnCircle(Pt(e.pts[i]), c, r) /\ OnLine(Pt(e.pts[i]), a, b)
                IN /\ (want = "unjudged") => Note("configuration inside the wide band around a boundary between kinds: kind not judged")
                   /\ (~KindOK(e.kind, want)) => Mismatch(l, e, [exact_kind |-> want])
                   /\ (~ptsok) => Mismatch(l, e, "a reported point does not lie on the circle and on the line within 1e-7")
                   /\ ("pts_iter" \in DOMAIN e /\ e.pts_iter # e.pts) => Mismatch(l, e, "into_iter() does not yield exactly the variant's points")
           [] e.ev = "ll" ->
                LET a == P(e.a, e.s) b == P(e.b, e.s) c == P(e.c, e.s) d == P(e.d, e.s)
                    want == LLKind(a, b, c, d)
                    ptsok == Len(e.pts) = Arity(e.kind) /\ \A i \in 1 .. Len(e.pts) : OnLine(Pt(e.pts[i]), a, b) /\ OnLine(Pt(e.pts[i]), c, d)
                IN /\ (want = "unjudged") => Note("configuration inside the wide band around a boundary between kinds: kind not judged")
                   /\ (~KindOK(e.kind, want)) => Mismatch(l, e, [exact_kind |-> want])
                   /\ (~ptsok) => Mismatch(l, e, "the reported point does not lie on both lines within 1e-7")
           [] e.ev = "par" ->
                \* parallel() is TRUE for parallel (or identical) lines and FALSE for lines that clearly cross
                LET want == LLKind(P(e.a, e.s), P(e.b, e.s), P(e.c, e.s), P(e.d, e.s))
                IN (want # "unjudged" /\ e.res # (want = "None")) => Mismatch(l, e, [exact_kind |-> want])
           [] e.ev = "pos" ->
                LET want == PosKind(P(e.p, e.s), P(e.c, e.s), Up(e.r, e.s))
                IN (~KindOK(e.kind, want)) => Mismatch(l, e, [exact_kind |-> want])
           [] e.ev = "contains" ->
                LET want == ContainsKind(P(e.p, e.s), P(e.a, e.s), P(e.b, e.s))
                IN (~KindOK(e.kind, want)) => Mismatch(l, e, [exact_kind |-> want])
           [] OTHER -> TRUE

Next == l <= Len(Rec) /\ Step(Rec[l]) /\ l' = l + 1
Spec == Init /\ [][Next]_l
Accepted == TLCGet("stats").diameter = Len(Rec) + 1
            \/ PrintT("INCOMPLETE " \o ToString(TLCGet("stats").diameter) \o " of " \o ToString(Len(Rec) + 1))
=============================================================================
