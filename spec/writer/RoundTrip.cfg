INIT Init
NEXT Next
