----------------------------- MODULE WriterImpl -----------------------------
(***************************************************************************)
(* (B) Implementation-shaped model of rlib_io::Writer (rlib/io/src/        *)
(* writer.rs) in lockstep with (A).                                        *)
(*                                                                         *)
(*   b.buf, b.end    the output buffer and its fill level                  *)
(*   b.sink          bytes the sink has received (write_all's contract:    *)
(*                   all offered bytes arrive, in order; how the sink      *)
(*                   accepts them -- partially, with Interrupted -- is     *)
(*                   varied by the harness, not here)                      *)
(*   b.panic         a piece larger than the buffer reached write_bytes    *)
(* FlushPerWrite selects the debug profile (cfg(debug_assertions): flush   *)
(* after every write()/write_char()) or the optimised one.                 *)
(***************************************************************************)
EXTENDS Writer, TLC

CONSTANTS BUF, FlushPerWrite

VARIABLES written, b, flushed
vars == <<written, b, flushed>>

FreshB == [buf |-> [i \in 0 .. BUF - 1 |-> 0], end |-> 0, sink |-> <<>>, panic |-> FALSE]

\* fn flush
FlushB(st) ==
    IF st.end = 0 THEN st
    ELSE [st EXCEPT !.sink = st.sink \o [i \in 1 .. st.end |-> st.buf[i - 1]], !.end = 0]

\* fn reserve
ReserveB(st, size) == IF st.end + size > BUF THEN FlushB(st) ELSE st

\* fn write_bytes
WriteBytesB(st, bytes) ==
    LET s1 == ReserveB(st, Len(bytes))
    IN IF st.panic THEN st
       ELSE IF s1.end + Len(bytes) > BUF THEN [s1 EXCEPT !.panic = TRUE]      \* slice index out of range
       ELSE [s1 EXCEPT !.buf = [i \in 0 .. BUF - 1 |->
                                    IF i >= s1.end /\ i < s1.end + Len(bytes) THEN bytes[i - s1.end + 1] ELSE s1.buf[i]],
                       !.end = s1.end + Len(bytes)]

DebugFlush(st) == IF FlushPerWrite THEN FlushB(st) ELSE st

\* fn write_char
WriteCharB(st, c) == DebugFlush(WriteBytesB(st, <<c>>))

\* impl Writable for &str / String: `for chunk in bytes.chunks(BUF_SIZE) { write_bytes(chunk) }`
RECURSIVE StrChunksB(_, _)
StrChunksB(st, bytes) ==
    IF bytes = <<>> THEN st
    ELSE LET k == IF Len(bytes) < BUF THEN Len(bytes) ELSE BUF
         IN StrChunksB(WriteBytesB(st, SubSeq(bytes, 1, k)), SubSeq(bytes, k + 1, Len(bytes)))

RECURSIVE WriteB(_, _)
RECURSIVE WriteSeqB(_, _, _)
\* Writable::write for each item kind (no trailing debug flush)
ItemB(st, it) ==
    CASE it.k = "s" -> StrChunksB(st, it.v)
      [] it.k = "i" ->
            \* write_signed: `if self < 0 { write_char('-') } ; writer.write(&self.unsigned_abs())`
            \* write_unsigned: 0 -> write_char('0'); else digits rendered backwards into a stack buffer, one write_bytes
            IF it.v < 0
            THEN WriteB(WriteCharB(st, MINUSCH), [k |-> "u", v |-> -it.v])
            ELSE WriteB(st, [k |-> "u", v |-> it.v])
      [] it.k = "u" -> IF it.v = 0 THEN WriteCharB(st, 48) ELSE WriteBytesB(st, DigitsOf(it.v))
      [] it.k = "q" -> WriteSeqB(st, it.v, 1)
\* Writer::write<T>: `t.write(self); #[cfg(debug_assertions)] self.flush();`
WriteB(st, it) == DebugFlush(ItemB(st, it))
\* Vec<T> / tuples: `if i != 0 { write_char(' ') } ; writer.write(value)`
WriteSeqB(st, items, i) ==
    IF i > Len(items) THEN st
    ELSE WriteSeqB(WriteB(IF i > 1 THEN WriteCharB(st, SPACE) ELSE st, items[i]), items, i + 1)

(* ---- lockstep actions ---------------------------------------------------- *)
Init == written = <<>> /\ b = FreshB /\ flushed = TRUE

\* writer.write(&item)   (chars go through write_char)
Write(it) ==
    /\ written' = AWrite(written, it)
    /\ b' = IF it.k = "c" THEN WriteCharB(b, it.v) ELSE WriteB(b, it)
    /\ flushed' = FALSE

\* writer.flush() -- drop does the same
Flush ==
    /\ b' = FlushB(b)
    /\ flushed' = TRUE
    /\ UNCHANGED written

(* ---- invariants ------------------------------------------------------------ *)
Pending == [i \in 1 .. b.end |-> b.buf[i - 1]]

\* nothing lost, duplicated or reordered: sink followed by the buffered bytes is what was written
Conservation == ~b.panic /\ b.sink \o Pending = written

\* C09: after flush/drop the sink has received exactly the formatted bytes
FlushedExact == flushed => (b.sink = written /\ b.end = 0)

\* debug profile: nothing stays buffered across public calls
DebugEager == FlushPerWrite => b.end = 0

TypeOK == b.end \in 0 .. BUF
=============================================================================
