------------------------------- MODULE Writer -------------------------------
(***************************************************************************)
(* (A) Abstract specification of rlib_io::Writer: the only state is the    *)
(* byte sequence `written` -- the concatenation, in call order, of the     *)
(* renderings of everything written so far.  After flush() or drop the     *)
(* sink must have received exactly `written`.                              *)
(*                                                                         *)
(* Renderings: strings verbatim, chars as one byte, integers in standard   *)
(* decimal formatting, vectors and tuples as their items separated by one  *)
(* space.  Items are records [k |-> "s", v |-> bytes] / [k |-> "c", v |->  *)
(* byte] / [k |-> "i", v |-> native int] / [k |-> "q", v |-> <<items>>].   *)
(***************************************************************************)
EXTENDS Integers, Sequences

SPACE == 32
MINUSCH == 45

RECURSIVE DigitsOf(_)
\* decimal digits (ASCII) of a positive native integer
DigitsOf(n) == IF n < 10 THEN <<48 + n>> ELSE DigitsOf(n \div 10) \o <<48 + (n % 10)>>

\* standard decimal formatting of a native integer
Decimal(n) == IF n < 0 THEN <<MINUSCH>> \o DigitsOf(-n) ELSE DigitsOf(n)

RECURSIVE Render(_)
RECURSIVE RenderSeq(_, _)
Render(it) ==
    CASE it.k = "s" -> it.v
      [] it.k = "c" -> <<it.v>>
      [] it.k = "i" -> Decimal(it.v)
      [] it.k = "q" -> RenderSeq(it.v, 1)
RenderSeq(items, i) ==
    IF i > Len(items) THEN <<>>
    ELSE (IF i > 1 THEN <<SPACE>> ELSE <<>>) \o Render(items[i]) \o RenderSeq(items, i + 1)

\* the abstract action of every write call
AWrite(written, it) == written \o Render(it)
=============================================================================
