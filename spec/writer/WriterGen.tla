------------------------------ MODULE WriterGen ------------------------------
(***************************************************************************)
(* MC + spec -> implementation for C09.  All sequences of <= Depth writes  *)
(* with pieces of every size 0 .. 2*BUF+1 (strings), chars, small          *)
(* integers (incl. 0, negatives, BUF digits) and vectors, interleaved with *)
(* flushes.  The content of every piece continues one running alphabet     *)
(* (byte number i of the whole output is 'a' + i mod 26 for string         *)
(* pieces), so loss, duplication or reordering anywhere is visible.        *)
(* One replay case per distinct (B)-state: the history reaching it and the *)
(* bytes the sink must hold after flush / drop.                            *)
(***************************************************************************)
EXTENDS WriterImpl, TraceLib

CONSTANTS Depth

\* 0, one digit, negatives, exactly BUF digits (with BUF = 8), '-' plus BUF-1 digits
IntVals == {0, 7, -5, 42, -123, 12345678, -1234567}

VARIABLE hist
gvars == <<written, b, flushed, hist>>
View == <<written, b, flushed, Len(hist)>>

StrPiece(len) == [k |-> "s", v |-> [i \in 1 .. len |-> 97 + ((Len(written) + i - 1) % 26)]]

GInit == Init /\ hist = <<>>

Go == Len(hist) < Depth

DoStr  == Go /\ \E len \in 0 .. 2 * BUF + 1 : Write(StrPiece(len)) /\ hist' = Append(hist, StrPiece(len))
DoChar == Go /\ LET it == [k |-> "c", v |-> 65 + (Len(written) % 26)] IN Write(it) /\ hist' = Append(hist, it)
DoInt  == Go /\ \E n \in IntVals : LET it == [k |-> "i", v |-> n] IN Write(it) /\ hist' = Append(hist, it)
DoVec  == Go /\ \E n \in IntVals, m \in {0, 7} :
              LET it == [k |-> "q", v |-> <<[k |-> "i", v |-> n], [k |-> "i", v |-> m], StrPiece(2)>>]
              IN Write(it) /\ hist' = Append(hist, it)
DoFlush == Go /\ ~flushed /\ Flush /\ hist' = Append(hist, [k |-> "f", v |-> 0])

\* depth bound as an enabling condition (a CONSTRAINT would still generate -- and run the emitting
\* invariant on -- every successor beyond the bound)
GNext == DoStr \/ DoChar \/ DoInt \/ DoVec \/ DoFlush
GSpec == GInit /\ [][GNext]_gvars

EmitState == Emit([buf |-> BUF, debug |-> FlushPerWrite, hist |-> hist, want |-> written, pending |-> b.end])
=============================================================================
