SPECIFICATION GSpec
CONSTANT BUF = 8
CONSTANT FlushPerWrite = FALSE
CONSTANT Depth = 3
VIEW View
INVARIANT TypeOK
INVARIANT Conservation
INVARIANT FlushedExact
INVARIANT DebugEager
INVARIANT EmitState
CHECK_DEADLOCK FALSE
