----------------------------- MODULE WriterTrace -----------------------------
(***************************************************************************)
(* Implementation -> spec for C09: traces recorded from the real           *)
(* rlib_io::Writer (production buffer, fill level swept across the 64 KiB  *)
(* boundary, sinks that accept partially / raise Interrupted).             *)
(*                                                                         *)
(* events  reset{}                                                         *)
(*         w{item}        one writer.write(&x) / write_char call; items:   *)
(*                        {k:"s",v:bytes} {k:"c",v:byte}                   *)
(*                        {k:"i",neg,mag,w_dec}  value as sign + 12-bit    *)
(*                            limbs (bit slicing) and, as a *witness*, its *)
(*                            decimal text from std formatting: the spec   *)
(*                            accepts the witness only if BNFromDigits of  *)
(*                            it equals mag and it is canonical            *)
(*                        {k:"q",v:items}  vector / tuple                  *)
(*         flush{sink} / drop{sink}   bytes the sink received since the    *)
(*                        previous flush/drop event: must equal the        *)
(*                        renderings of everything written since then      *)
(*         rt{back}       the produced text was read back by a real Reader *)
(*                        with the original types: must equal what was     *)
(*                        written (C09 round trip)                         *)
(***************************************************************************)
EXTENDS BigNat, TraceLib

VARIABLES pend, items, l
tvars == <<pend, items, l>>

AllDigitsT(s) == Len(s) > 0 /\ \A i \in 1 .. Len(s) : s[i] >= 48 /\ s[i] <= 57
\* s is the standard decimal formatting of (neg, mag)
IsDecimalOf(s, neg, mag) ==
    LET d == IF neg THEN Tail(s) ELSE s
    IN /\ Len(s) > 0
       /\ neg => s[1] = 45
       /\ AllDigitsT(d)
       /\ (Len(d) > 1 => d[1] # 48)
       /\ (neg => mag # <<>>)
       /\ BNFromDigits(d) = mag

RECURSIVE RenderT(_)
RECURSIVE RenderSeqT(_, _)
RenderT(it) ==
    CASE it.k = "s" -> it.v
      [] it.k = "c" -> <<it.v>>
      [] it.k = "i" -> it.w_dec
      [] it.k = "q" -> RenderSeqT(it.v, 1)
RenderSeqT(its, i) ==
    IF i > Len(its) THEN <<>>
    ELSE (IF i > 1 THEN <<32>> ELSE <<>>) \o RenderT(its[i]) \o RenderSeqT(its, i + 1)

RECURSIVE WitnessOK(_)
WitnessOK(it) ==
    CASE it.k = "i" -> IsDecimalOf(it.w_dec, it.neg, it.mag)
      [] it.k = "q" -> \A i \in 1 .. Len(it.v) : WitnessOK(it.v[i])
      [] OTHER -> TRUE

\* values only (what a read-back can return): chars are separators in round-trip runs
RECURSIVE Values(_)
Values(it) ==
    CASE it.k = "s" -> <<[k |-> "s", v |-> it.v]>>
      [] it.k = "c" -> <<>>
      [] it.k = "i" -> <<[k |-> "i", neg |-> it.neg, mag |-> it.mag]>>
      [] it.k = "q" -> IF it.v = <<>> THEN <<>> ELSE Values(it.v[1]) \o Values([k |-> "q", v |-> Tail(it.v)])

\* pend is a sequence of chunks; compare with the sink bytes piecewise
RECURSIVE ChunksMatch(_, _, _, _)
ChunksMatch(chunks, i, sink, off) ==
    IF i > Len(chunks) THEN off = Len(sink)
    ELSE /\ off + Len(chunks[i]) <= Len(sink)
         /\ SubSeq(sink, off + 1, off + Len(chunks[i])) = chunks[i]
         /\ ChunksMatch(chunks, i + 1, sink, off + Len(chunks[i]))

RECURSIVE TotalLen(_, _)
TotalLen(chunks, i) == IF i > Len(chunks) THEN 0 ELSE Len(chunks[i]) + TotalLen(chunks, i + 1)

(* ---- beyond the listed property: the integer traits the writer relies on (rlib_num_traits) -------------------- *)
RECURSIVE DigitCountRec(_, _, _)
\* least k with x < 10^k
DigitCountRec(x, p, k) == IF BNLt(x, p) THEN k ELSE DigitCountRec(x, BNMulSmall(p, 10), k + 1)
DigitCount(x) == DigitCountRec(x, <<1>>, 0)
UMax(bits) == BNSub(BNPow2(bits), BNOne)
NumTraitsOK(e) ==
    LET I(v) == BI(v.neg, v.mag)
    IN /\ e.base10len = DigitCount(UMax(e.bits))            \* BASE_10_LEN: decimal digits of the unsigned maximum
       /\ I(e.zero) = BIZero /\ I(e.one) = BIFromInt(1)
       /\ I(e.max) = BI(FALSE, IF e.signed THEN BNSub(BNPow2(e.bits - 1), BNOne) ELSE UMax(e.bits))
       /\ I(e.min) = (IF e.signed THEN BI(TRUE, BNPow2(e.bits - 1)) ELSE BIZero)
       /\ I(e.abs_min_plus_one) = (IF e.signed THEN BI(FALSE, BNSub(BNPow2(e.bits - 1), BNOne)) ELSE BIFromInt(1))

Init == pend = <<>> /\ items = <<>> /\ l = 1

Step(e) ==
    CASE e.ev = "reset" -> pend' = <<>> /\ items' = <<>>
      [] e.ev = "w" ->
            /\ (~WitnessOK(e.item)) => Mismatch(l, e, "harness bug: decimal witness does not denote the logged value")
            /\ ("panic" \in DOMAIN e) => Mismatch(l, e, "write must not panic")
            /\ pend' = Append(pend, RenderT(e.item))
            /\ items' = items \o Values(e.item)
      [] e.ev \in {"flush", "drop"} ->
            /\ (~ChunksMatch(pend, 1, e.sink, 0)) =>
                   Mismatch(l, [ev |-> e.ev, sink_len |-> Len(e.sink), sink_head |-> SubSeq(e.sink, 1, IF Len(e.sink) < 60 THEN Len(e.sink) ELSE 60)],
                            [expected_len |-> TotalLen(pend, 1), chunks |-> Len(pend)])
            /\ pend' = <<>> /\ items' = items
      [] e.ev = "rt" ->
            /\ (e.back # items) => Mismatch(l, e, [written |-> items])
            /\ UNCHANGED <<pend, items>>
      [] e.ev = "numtraits" ->
            /\ (~NumTraitsOK(e)) => Mismatch(l, e, "integer trait constants differ from the type's arithmetic")
            /\ UNCHANGED <<pend, items>>
      [] OTHER -> Mismatch(l, e, "unknown event") /\ UNCHANGED <<pend, items>>

Next == l <= Len(Rec) /\ Step(Rec[l]) /\ l' = l + 1
Spec == Init /\ [][Next]_tvars

Accepted == TLCGet("stats").diameter = Len(Rec) + 1
            \/ PrintT("INCOMPLETE " \o ToString(TLCGet("stats").diameter) \o " of " \o ToString(Len(Rec) + 1))
=============================================================================
