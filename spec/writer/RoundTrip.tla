------------------------------ MODULE RoundTrip ------------------------------
(***************************************************************************)
(* C09, last sentence, on the two abstract specifications: rendering       *)
(* values with Writer (A), separated by a whitespace byte, and parsing the *)
(* text with Reader (A) returns the values.  Checked by TLC for all        *)
(* sequences of <= 3 values from a small universe (assumption-level        *)
(* theorem of the two specs; the real code is bound to each spec           *)
(* separately and to the composition by the rt events of WriterTrace).     *)
(***************************************************************************)
EXTENDS Writer, Reader, TLC

Vals == {[k |-> "i", v |-> n] : n \in {0, 5, 10, 99, 100, 12345}} \cup
        {[k |-> "i", v |-> 0 - n] : n \in {1, 10, 999}} \cup
        {[k |-> "s", v |-> s] : s \in {<<97>>, <<45, 49>>, <<49, 97, 45>>}}
Seps == {32, 10}

RECURSIVE Horner10(_, _)
Horner10(digs, acc) == IF digs = <<>> THEN acc ELSE Horner10(Tail(digs), acc * 10 + (Head(digs) - 48))
ValueOfTok(tok) == IF tok[1] = MINUS THEN 0 - Horner10(Tail(tok), 0) ELSE Horner10(tok, 0)

\* text of the values, each followed by a separator
RECURSIVE TextOf(_, _)
TextOf(vs, sep) == IF vs = <<>> THEN <<>> ELSE Render(Head(vs)) \o <<sep>> \o TextOf(Tail(vs), sep)

RECURSIVE ReadBack(_, _, _)
ReadBack(text, p, vs) ==
    IF vs = <<>> THEN <<>>
    ELSE LET tok == Token(text, p)
             v == IF Head(vs).k = "i" THEN [k |-> "i", v |-> ValueOfTok(tok)] ELSE [k |-> "s", v |-> tok]
         IN <<v>> \o ReadBack(text, TokStop(text, p), Tail(vs))

ASSUME RoundTripHolds ==
    \A a \in Vals, b \in Vals, c \in Vals, sep \in Seps :
        LET vs == <<a, b, c>> IN ReadBack(TextOf(vs, sep), 0, vs) = vs

VARIABLE x
Init == x = 0
Next == UNCHANGED x
=============================================================================
