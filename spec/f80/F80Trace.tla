------------------------------ MODULE F80Trace ------------------------------
(***************************************************************************)
(* Implementation -> spec for C18.  Operands and results are decoded from  *)
(* the 10 bytes (resp. the f64 bits) by bit slicing in the harness.        *)
(*   arith{op,x,y,r}      + - * / and their assigning forms, neg           *)
(*   conv{d,x,back}       f64 d -> f80 x -> f64 back                       *)
(*   narrow{x,d}          f80 -> f64 of an arithmetic result               *)
(*   cmp{x,y,lt,le,gt,ge,pc,eq,min,max}   abs{x,r}                         *)
(***************************************************************************)
EXTENDS F80, TraceLib

VARIABLE l
Init == l = 1

Supported(v) == v.c \in {"nan", "inf", "zero", "fin"}

ArithOK(e) ==
    CASE e.op \in {"add", "add_assign"} -> AddOK(e.x, e.y, e.r, 64)
      [] e.op \in {"sub", "sub_assign"} -> AddOK(e.x, IF IsNaN(e.y) THEN e.y ELSE Negate(e.y), e.r, 64)
      [] e.op \in {"mul", "mul_assign"} -> MulOK(e.x, e.y, e.r, 64)
      [] e.op \in {"div", "div_assign"} -> DivOK(e.x, e.y, e.r, 64)
      [] e.op = "neg" -> NegOK(e.x, e.r)

\* f80 -> f64 for values inside the normal f64 range: correctly rounded to 53 bits
NarrowJudged(x) == x.c # "fin" \/ (LET top == x.e + BNBitLen(x.m) IN top > -1021 /\ top <= 1023)
NarrowOK(x, d) ==
    IF x.c # "fin" THEN SameReal(x, d)
    ELSE d.c = "fin" /\ d.neg = x.neg /\ RoundedOK(x.m, BNOne, x.e, d, 53)

CmpWrong(e) ==
    {f \in {"lt", "le", "gt", "ge", "pc", "eq", "ne", "min", "max"} :
        CASE f = "lt" -> e.lt # Lt(e.x, e.y)
          [] f = "le" -> e.le # Le(e.x, e.y)
          [] f = "gt" -> e.gt # Gt(e.x, e.y)
          [] f = "ge" -> e.ge # Ge(e.x, e.y)
          [] f = "pc" -> e.pc # PartialCmp(e.x, e.y)
          [] f = "eq" -> e.eq # EqV(e.x, e.y)              \* == consistent with partial_cmp
          [] f = "ne" -> e.ne # (~EqV(e.x, e.y))           \* != is its negation (also with the same object on both sides)
          [] f = "min" -> ~MinOK(e.x, e.y, e.min)
          [] f = "max" -> ~MaxOK(e.x, e.y, e.max)}

Step(e) ==
    IF "panic" \in DOMAIN e THEN Mismatch(l, e, "must not panic")
    ELSE CASE e.ev = "arith" ->
                IF ~(Supported(e.x) /\ Supported(e.y) /\ Supported(e.r)) THEN Note("denormal / unnormal 80-bit value: not judged")
                ELSE (~ArithOK(e)) => Mismatch(l, e, "result is not the exact real result rounded to a 64-bit significand (nearest even)")
           [] e.ev = "conv" ->
                (~(SameReal(e.d, e.x) /\ (e.x.c = "fin" => BNBitLen(e.x.m) = 64) /\ e.back = e.d)) => Mismatch(l, e, "f64 -> f80 -> f64 is not the identity")
           [] e.ev = "narrow" ->
                IF ~NarrowJudged(e.x) \/ ~Supported(e.x) THEN Note("f80 value outside the normal f64 range: narrowing not judged")
                ELSE (~NarrowOK(e.x, e.d)) => Mismatch(l, e, "f80 -> f64 is not correctly rounded")
           [] e.ev = "cmp" ->
                LET W == CmpWrong(e) IN (W # {}) => Mismatch(l, [ev |-> "cmp", op |-> "comparisons", x |-> e.xt, y |-> e.yt, wrong |-> W,
                                                                   got |-> [lt |-> e.lt, le |-> e.le, gt |-> e.gt, ge |-> e.ge, pc |-> e.pc, eq |-> e.eq]],
                                                             [lt |-> Lt(e.x, e.y), le |-> Le(e.x, e.y), gt |-> Gt(e.x, e.y), ge |-> Ge(e.x, e.y),
                                                              pc |-> PartialCmp(e.x, e.y), eq |-> EqV(e.x, e.y)])
           [] e.ev = "abs" -> (~AbsOK(e.x, e.r)) => Mismatch(l, e, "abs does not agree with the IEEE value")
           [] OTHER -> TRUE

Next == l <= Len(Rec) /\ Step(Rec[l]) /\ l' = l + 1
Spec == Init /\ [][Next]_l
Accepted == TLCGet("stats").diameter = Len(Rec) + 1
            \/ PrintT("INCOMPLETE " \o ToString(TLCGet("stats").diameter) \o " of " \o ToString(Len(Rec) + 1))
=============================================================================
