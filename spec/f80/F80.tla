-------------------------------- MODULE F80 --------------------------------
(***************************************************************************)
(* (A) Specification of rlib_f80::f80 (C18): x87 80-bit extended values.   *)
(* A value is a record                                                     *)
(*   [c |-> "nan" | "inf" | "zero" | "fin", neg |-> BOOLEAN,               *)
(*    e |-> exponent of the least significant bit (native integer),        *)
(*    m |-> significand as BigNat]           value = (-1)^neg * m * 2^e    *)
(* (for c = "fin"; f64 values use the same record with a 53-bit m).        *)
(*                                                                         *)
(* Comparisons are a complete case analysis (IEEE: NaN unordered, -0 = +0).*)
(* "Correctly rounded" is the defining inequality of round-to-nearest-even *)
(* on exact integers -- no division: with the exact result X = N/D * 2^E   *)
(* and the claimed result R = m * 2^e (2^(p-1) <= m < 2^p),                 *)
(*       | N * 2^(E-e0) - m * D * 2^(e-e0) |  <=  D * 2^(e-e0-1)           *)
(* for e0 = min(E, e - 2), a tie being allowed only for even m, and the    *)
(* bound from below halved when m = 2^(p-1) (the spacing changes there).   *)
(***************************************************************************)
EXTENDS BigNat

MinI(x, y) == IF x < y THEN x ELSE y

IsNaN(x) == x.c = "nan"
IsZero(x) == x.c = "zero"

(* ---- order ------------------------------------------------------------------- *)
\* magnitude comparison of two finite non-zero values: -1, 0, 1
MagCmp(x, y) ==
    LET e0 == MinI(x.e, y.e)
    IN BNCmp(BNShiftL(x.m, x.e - e0), BNShiftL(y.m, y.e - e0))
\* signed rank comparison of non-NaN values
ValCmp(x, y) ==
    LET sx == IF IsZero(x) THEN 0 ELSE IF x.neg THEN -1 ELSE 1
        sy == IF IsZero(y) THEN 0 ELSE IF y.neg THEN -1 ELSE 1
    IN IF sx # sy THEN (IF sx < sy THEN -1 ELSE 1)
       ELSE IF sx = 0 THEN 0
       ELSE LET mc == IF x.c = "inf" /\ y.c = "inf" THEN 0
                      ELSE IF x.c = "inf" THEN 1
                      ELSE IF y.c = "inf" THEN -1
                      ELSE MagCmp(x, y)
            IN sx * mc
Unordered(x, y) == IsNaN(x) \/ IsNaN(y)
Lt(x, y) == ~Unordered(x, y) /\ ValCmp(x, y) < 0
Le(x, y) == ~Unordered(x, y) /\ ValCmp(x, y) <= 0
Gt(x, y) == ~Unordered(x, y) /\ ValCmp(x, y) > 0
Ge(x, y) == ~Unordered(x, y) /\ ValCmp(x, y) >= 0
EqV(x, y) == ~Unordered(x, y) /\ ValCmp(x, y) = 0
PartialCmp(x, y) == IF Unordered(x, y) THEN "none" ELSE IF ValCmp(x, y) < 0 THEN "lt" ELSE IF ValCmp(x, y) > 0 THEN "gt" ELSE "eq"

SameValue(r, x) == (IsNaN(r) /\ IsNaN(x)) \/ (~IsNaN(r) /\ ~IsNaN(x) /\ ValCmp(r, x) = 0)
\* min / max: the property is silent when an operand is NaN (any operand is accepted)
MinOK(x, y, r) == IF Unordered(x, y) THEN (SameValue(r, x) \/ SameValue(r, y))
                  ELSE SameValue(r, IF ValCmp(x, y) <= 0 THEN x ELSE y)
MaxOK(x, y, r) == IF Unordered(x, y) THEN (SameValue(r, x) \/ SameValue(r, y))
                  ELSE SameValue(r, IF ValCmp(x, y) >= 0 THEN x ELSE y)
AbsOK(x, r) == IF IsNaN(x) THEN IsNaN(r)
               ELSE ~IsNaN(r) /\ (IsZero(r) \/ ~r.neg) /\ (ValCmp(r, x) = 0 \/ ValCmp(r, [x EXCEPT !.neg = ~x.neg]) = 0)

(* ---- rounding ------------------------------------------------------------------- *)
\* |X| = N/D * 2^E (N, D > 0) is correctly rounded (nearest, ties to even) to r = m * 2^e with a p-bit significand
RoundedOK(N, D, E, r, p) ==
    LET e0 == MinI(E, r.e - 2)
        A == BNShiftL(N, E - e0)
        R == BNMul(BNShiftL(r.m, r.e - e0), D)
        H == BNShiftL(D, r.e - e0 - 1)                  \* half a unit in the last place
        lowbin == r.m = BNPow2(p - 1)                   \* r is a power of two: the spacing below it is half
        Hlow == IF lowbin THEN BNShiftL(D, r.e - e0 - 2) ELSE H
        even == BNIsEven(r.m)
    IN /\ BNBitLen(r.m) = p
       /\ IF BNLe(R, A)
          THEN LET diff == BNSub(A, R) IN BNLt(diff, H) \/ (diff = H /\ even)
          ELSE LET diff == BNSub(R, A) IN BNLt(diff, Hlow) \/ (diff = Hlow /\ (even \/ lowbin))

\* exact sum / difference of two finite values as [neg, N, E] (N may be zero)
ExactAdd(x, y) ==
    LET e0 == MinI(x.e, y.e)
        a == BI(x.neg, BNShiftL(x.m, x.e - e0))
        b == BI(y.neg, BNShiftL(y.m, y.e - e0))
        s == BIAdd(a, b)
    IN [neg |-> s.neg, N |-> s.mag, E |-> e0]

Negate(x) == [x EXCEPT !.neg = ~x.neg]

\* r is the IEEE result of x + y
AddOK(x, y, r, p) ==
    IF Unordered(x, y) THEN IsNaN(r)
    ELSE IF x.c = "inf" \/ y.c = "inf"
         THEN (IF x.c = "inf" /\ y.c = "inf" /\ x.neg # y.neg THEN IsNaN(r)
               ELSE r.c = "inf" /\ r.neg = (IF x.c = "inf" THEN x.neg ELSE y.neg))
    ELSE IF IsZero(x) /\ IsZero(y) THEN IsZero(r) /\ r.neg = (x.neg /\ y.neg)
    ELSE IF IsZero(x) THEN r = y
    ELSE IF IsZero(y) THEN r = x
    ELSE LET s == ExactAdd(x, y)
         IN IF s.N = <<>> THEN IsZero(r) /\ ~r.neg                      \* exact cancellation gives +0
            ELSE r.c = "fin" /\ r.neg = s.neg /\ RoundedOK(s.N, BNOne, s.E, r, p)

MulOK(x, y, r, p) ==
    IF Unordered(x, y) THEN IsNaN(r)
    ELSE IF (x.c = "inf" /\ IsZero(y)) \/ (IsZero(x) /\ y.c = "inf") THEN IsNaN(r)
    ELSE IF x.c = "inf" \/ y.c = "inf" THEN r.c = "inf" /\ r.neg = (x.neg # y.neg)
    ELSE IF IsZero(x) \/ IsZero(y) THEN IsZero(r) /\ r.neg = (x.neg # y.neg)
    ELSE r.c = "fin" /\ r.neg = (x.neg # y.neg) /\ RoundedOK(BNMul(x.m, y.m), BNOne, x.e + y.e, r, p)

DivOK(x, y, r, p) ==
    IF Unordered(x, y) THEN IsNaN(r)
    ELSE IF (x.c = "inf" /\ y.c = "inf") \/ (IsZero(x) /\ IsZero(y)) THEN IsNaN(r)
    ELSE IF x.c = "inf" THEN r.c = "inf" /\ r.neg = (x.neg # y.neg)
    ELSE IF y.c = "inf" THEN IsZero(r) /\ r.neg = (x.neg # y.neg)
    ELSE IF IsZero(y) THEN r.c = "inf" /\ r.neg = (x.neg # y.neg)
    ELSE IF IsZero(x) THEN IsZero(r) /\ r.neg = (x.neg # y.neg)
    ELSE r.c = "fin" /\ r.neg = (x.neg # y.neg) /\ RoundedOK(x.m, y.m, x.e - y.e, r, p)

NegOK(x, r) == IF IsNaN(x) THEN IsNaN(r) ELSE r = Negate(x)

\* two finite records denote the same real number (different significand widths allowed)
SameReal(a, b) ==
    IF a.c # "fin" \/ b.c # "fin" THEN a.c = b.c /\ (a.c = "nan" \/ a.neg = b.neg)
    ELSE a.neg = b.neg /\ MagCmp(a, b) = 0
=============================================================================
