------------------------------ MODULE FftGen ------------------------------
(***************************************************************************)
(* Spec -> implementation for C04: all call histories of up to Depth calls *)
(* on one reused transformer, over length pairs chosen around the points   *)
(* where the transform size switches (every grow / shrink order of sizes   *)
(* 2..32), with the results the specification demands for every call, and  *)
(* -- as single calls after a large one -- every length pair 1..MaxLen x   *)
(* 1..MaxLen.  Coefficient vectors are a deterministic function of the     *)
(* lengths and the position in the history (values -2..2).                 *)
(***************************************************************************)
EXTENDS Fft, TraceLib

CONSTANTS Depth, MaxLen

VARIABLE hist
gvars == <<planSize, hist>>

Vec(len, salt) == [i \in 1 .. len |-> ((i * 3 + salt * 7) % 5) - 2]

\* length pairs realising every transform size 2 .. 32, two per size (balanced and lopsided)
Pairs == {<<1, 1>>, <<1, 2>>, <<2, 2>>, <<1, 4>>, <<3, 3>>, <<4, 5>>, <<1, 8>>, <<8, 9>>, <<5, 12>>, <<17, 16>>, <<2, 31>>, <<9, 9>>}
\* "_short": the destination is shorter than the product (one less than |a|+|b|-1 resp. exactly |a|+|b|-1 for the inverse)
Kinds == {"multiply", "multiply_into", "pointwise", "inv_into", "multiply_into_short", "inv_into_short"}

Call(kind, la, lb, salt) ==
    LET a == Vec(la, salt) b == Vec(lb, salt + 1)
        n == SizeFor(a, b)
        dlen == CASE kind = "inv_into" -> n + 3
                  [] kind = "inv_into_short" -> la + lb - 1
                  [] kind = "multiply_into_short" -> (IF la + lb - 2 >= 1 THEN la + lb - 2 ELSE 1)
                  [] OTHER -> la + lb + 1
        dst == [i \in 1 .. dlen |-> (i % 4) - 1]
    IN [kind |-> kind, a |-> a, b |-> b, n |-> n,
        dst |-> IF kind \in {"multiply_into", "inv_into", "multiply_into_short", "inv_into_short"} THEN dst ELSE <<>>,
        want |-> CASE kind = "multiply" -> MultiplyResult(a, b)
                   [] kind = "multiply_into" -> MultiplyIntoResult(a, b, dst)
                   [] kind = "pointwise" -> PointwiseResult(a, b, n)
                   [] kind = "inv_into" -> InvIntoResult(a, b, n, dst)
                   [] kind = "multiply_into_short" -> MultiplyIntoResult(a, b, dst)
                   [] kind = "inv_into_short" -> InvIntoResult(a, b, n, dst)]

GInit == planSize = 4 /\ hist = <<>>

DoCall == /\ Len(hist) < Depth
          /\ \E p \in Pairs, k \in Kinds :
                 LET c == Call(k, p[1], p[2], Len(hist)) IN
                 /\ hist' = Append(hist, c)
                 /\ planSize' = PlanAfter(c.n)
\* every length pair as a call on a transformer whose plan is already large
DoSweep == /\ hist = <<>>
           /\ \E la \in 1 .. MaxLen, lb \in 1 .. MaxLen, k \in {"multiply", "multiply_into"} :
                  LET big == Call("multiply", 17, 16, 3)
                      c == Call(k, la, lb, la + lb)
                  IN hist' = <<big, c>> /\ planSize' = PlanAfter(big.n)
GNext == DoCall \/ DoSweep
GSpec == GInit /\ [][GNext]_gvars

EmitState == (hist # <<>>) => Emit([hist |-> hist, plan |-> planSize])
=============================================================================
