SPECIFICATION GSpec
CONSTANT Depth = 2
CONSTANT MaxLen = 17
INVARIANT EmitState
CHECK_DEADLOCK FALSE
