------------------------------ MODULE FftImpl ------------------------------
(***************************************************************************)
(* (B) Implementation-shaped model of rlib_fft::FFT<F> (rlib/fft/src/      *)
(* fft.rs) over an EXACT stand-in for the complex numbers, so that the     *)
(* index logic (plan tables shared by all sizes through a stride, bit      *)
(* reversal with a shift, forward / inverse butterflies) and the packing   *)
(* identities (two real inputs in one complex transform, unpacking through *)
(* conjugate symmetry, half-size inverse) are verified as a design, free   *)
(* of rounding.                                                            *)
(*                                                                         *)
(* Scalars are the field GF(P^2) = Z_P[i] with P = 8191 (P = 3 mod 4, so   *)
(* x^2 + 1 is irreducible).  Its norm-1 subgroup {z : z * conj(z) = 1} is  *)
(* cyclic of order P + 1 = 2^13: it contains roots of unity of every order *)
(* 2^k <= 2^13, and conj(w) = 1/w holds for them exactly as for e^(i t).   *)
(* cos / sin of pi*i/cur are replaced by the real / imaginary part of the  *)
(* corresponding power of a fixed generator G of that subgroup.  1/n is    *)
(* the field inverse; round() maps a residue to its representative in      *)
(* (-P/2, P/2), exact while the true integer result is smaller than P/2.   *)
(***************************************************************************)
EXTENDS Integers, Sequences, FiniteSets, Fft

\* TRUE = the code as it is (twiddle table shared by all sizes through a stride); FALSE = a plausible slip kept as a
\* negative test that TLC must reject: indexing the table as if it had been built for the current size
CONSTANT SharedByStride

P == 8191

Md(x) == x % P
CAdd(a, b) == <<Md(a[1] + b[1]), Md(a[2] + b[2])>>
CSub(a, b) == <<Md(a[1] - b[1]), Md(a[2] - b[2])>>
CMul(a, b) == <<Md(a[1] * b[1] - a[2] * b[2]), Md(a[1] * b[2] + a[2] * b[1])>>
CConj(a) == <<a[1], Md(0 - a[2])>>
CScale(a, k) == <<Md(a[1] * k), Md(a[2] * k)>>
CZero == <<0, 0>>
COne == <<1, 0>>
CI == <<0, 1>>

RECURSIVE CPow(_, _)
CPow(z, k) == IF k = 0 THEN COne ELSE IF k % 2 = 0 THEN LET h == CPow(z, k \div 2) IN CMul(h, h) ELSE CMul(z, CPow(z, k - 1))

\* a generator of the norm-1 subgroup: z = u / conj(u) has norm 1 for every u; take the first u whose z has full order 2^13
Norm1Of(u) == LET n == Md(u[1] * u[1] + u[2] * u[2]) IN CScale(CMul(u, u), CHOOSE x \in 1 .. P - 1 : Md(x * n) = 1)
HasFullOrder(z) == CPow(z, 4096) # COne          \* order divides 2^13; not dividing 2^12 means exactly 2^13
\* ... and, because the packing identities use the imaginary unit itself, G^(2^11) -- the table's quarter turn e^(i pi/2) --
\* must be i and not -i (conjugating a generator swaps the two)
G == LET U == {<<a, 1>> : a \in 1 .. 40}
         z == Norm1Of(CHOOSE u \in U : HasFullOrder(Norm1Of(u)))
     IN IF CPow(z, 2048) = CI THEN z ELSE CConj(z)

RECURSIVE Log2(_)
Log2(n) == IF n <= 1 THEN 0 ELSE 1 + Log2(n \div 2)
RECURSIVE Pow2(_)
Pow2(k) == IF k = 0 THEN 1 ELSE 2 * Pow2(k - 1)

\* e^(i * pi * i / cur): the (2*cur)-th root of unity to the power i
Twiddle(i, cur) == CPow(G, i * (8192 \div (2 * cur)))
\* 1 / 2^k in Z_P
InvPow2(k) == Md(CPow(<<4096, 0>>, k)[1])
InvN(n) == InvPow2(Log2(n))
\* round(): signed representative
Signed(r) == IF r > P \div 2 THEN r - P ELSE r

(* ---- the plan: fn update_n -------------------------------------------------------- *)
\* plan = [w |-> sequence (0-based index i at position i+1), rev |-> sequence]
NewPlanRaw == [w |-> <<COne, COne>>, rev |-> <<0>>]

RECURSIVE GrowTo(_, _)
GrowTo(pl, n) ==
    LET cur == Len(pl.rev)
    IN IF n <= cur THEN pl
       ELSE LET rev1 == [i \in 1 .. 2 * cur |-> IF i <= cur THEN 2 * pl.rev[i] ELSE (2 * pl.rev[i - cur]) + 1]
                \* reversed[i] <<= 1 for i < cur; reversed[i] = reversed[i - cur] ^ 1 for cur <= i < 2cur (the low bit is 0 after the shift)
                wold == pl.w
                \* even i (from high to low): w[i] = w[i / 2]; odd i: w[i] = (cos, sin)(pi * i / cur); resize pads with ZERO
                w1 == [j \in 1 .. 2 * cur + 1 |->
                          LET i == j - 1
                          IN IF i = 0 THEN wold[1]
                             ELSE IF i % 2 = 1 THEN Twiddle(i, cur)
                             ELSE IF i <= 2 * cur - 2 THEN wold[(i \div 2) + 1]
                             ELSE CZero]
                w2 == [w1 EXCEPT ![2 * cur + 1] = w1[2 * cur + 1]]
            IN GrowTo([w |-> w2, rev |-> rev1], n)

\* `*self.w.last_mut().unwrap() = Complex::ONE` after the loop
UpdateN(pl, n) ==
    IF n <= Len(pl.rev) THEN pl
    ELSE LET g == GrowTo(pl, n) IN [g EXCEPT !.w = [g.w EXCEPT ![Len(g.w)] = COne]]

NewPlan == UpdateN(NewPlanRaw, 4)

(* ---- fn fft_internal ----------------------------------------------------------------- *)
Swap(v, i, j) == [v EXCEPT ![i + 1] = v[j + 1], ![j + 1] = v[i + 1]]

RECURSIVE BitRev(_, _, _, _, _)
BitRev(v, pl, d, i, n) ==
    IF i >= n THEN v
    ELSE LET r == pl.rev[i + 1] \div Pow2(d)
         IN BitRev(IF i < r THEN Swap(v, i, r) ELSE v, pl, d, i + 1, n)

RECURSIVE Butterflies(_, _, _, _, _, _, _, _)
\* one block starting at i, inner index j, twiddle index ind advancing by step
Butterflies(v, pl, i, j, ln, ind, step, dummy) ==
    IF j >= ln THEN v
    ELSE LET y == CMul(v[i + j + ln + 1], pl.w[ind + 1])
             v1 == [v EXCEPT ![i + j + ln + 1] = CSub(v[i + j + 1], y), ![i + j + 1] = CAdd(v[i + j + 1], y)]
         IN Butterflies(v1, pl, i, j + 1, ln, ind + step, step, dummy)

RECURSIVE Blocks(_, _, _, _, _, _, _)
Blocks(v, pl, i, n, ln, inv, maxn) ==
    IF i >= n THEN v
    ELSE LET step == (IF inv THEN 0 - maxn ELSE maxn) \div (2 * ln)
             ind0 == IF inv THEN maxn ELSE 0
         IN Blocks(Butterflies(v, pl, i, 0, ln, ind0, step, 0), pl, i + 2 * ln, n, ln, inv, maxn)

RECURSIVE Levels(_, _, _, _, _, _)
Levels(v, pl, n, ln, inv, maxn) ==
    IF ln >= n THEN v ELSE Levels(Blocks(v, pl, 0, n, ln, inv, maxn), pl, n, 2 * ln, inv, maxn)

\* returns <<plan, vector>>
FftInternal(pl0, v, inv) ==
    LET n == Len(v)
        pl == UpdateN(pl0, n)
        maxn == Len(pl.rev)
        d == Log2(maxn) - Log2(n)
        v1 == BitRev(v, pl, d, 1, n)
        v2 == Levels(v1, pl, n, 1, inv, maxn)
        v3 == IF inv THEN [k \in 1 .. n |-> CScale(v2[k], InvN(n))] ELSE v2
    IN <<pl, v3>>

(* ---- fn multiply_into ------------------------------------------------------------------- *)
RECURSIVE SizeAtLeast(_, _)
SizeAtLeast(n, need) == IF n >= need THEN n ELSE SizeAtLeast(2 * n, need)

RECURSIVE Unpack(_, _, _)
\* for i in 0..=n/2: j = (n - i) & (n - 1); v = (buf[i] + conj(buf[j])) * (conj(buf[j]) - buf[i]) * (I / 8); buf[i] = v; buf[j] = conj(v)
Unpack(buf, i, n) ==
    IF i > n \div 2 THEN buf
    ELSE LET j == (n - i) % n
             cj == CConj(buf[j + 1])
             v == CMul(CMul(CAdd(buf[i + 1], cj), CSub(cj, buf[i + 1])), CScale(CI, InvPow2(3)))
         IN Unpack([buf EXCEPT ![i + 1] = v, ![j + 1] = CConj(v)], i + 1, n)

\* for i in 0..n/2: j = i + n/2; buf[i] = buf[i] + buf[j] - (buf[i] - buf[j]) * w[start - step * i]   (times `half` in fft_inv_into)
Fold(buf, pl, n, scale) ==
    LET maxn == Len(pl.rev)
        step == IF SharedByStride THEN maxn \div n ELSE 1
        start == maxn - (maxn \div 4)
    IN [k \in 1 .. n \div 2 |->
           LET i == k - 1 j == i + n \div 2
           IN CScale(CSub(CAdd(buf[i + 1], buf[j + 1]), CMul(CSub(buf[i + 1], buf[j + 1]), pl.w[start - step * i + 1])), scale)]

\* interleave real and imaginary parts, rounded
RECURSIVE Flatten(_, _)
Flatten(v, k) == IF k > Len(v) THEN <<>> ELSE <<Signed(v[k][1]), Signed(v[k][2])>> \o Flatten(v, k + 1)

\* returns <<plan, coefficients (|a|+|b|-1 of them)>>
MultiplyB(pl0, a, b) ==
    LET n == SizeAtLeast(2, Len(a) + Len(b) - 1)
        buf0 == [k \in 1 .. n |-> <<IF k <= Len(a) THEN Md(a[k]) ELSE 0, IF k <= Len(b) THEN Md(b[k]) ELSE 0>>]
        f == FftInternal(pl0, buf0, FALSE)
        pl == f[1]
        buf1 == Unpack(f[2], 0, n)
        half == Fold(buf1, pl, n, 1)
        g == FftInternal(pl, half, TRUE)
    IN <<g[1], SubSeq(Flatten(g[2], 1), 1, Len(a) + Len(b) - 1)>>

(* ---- fn fft_into / fft_inv_into ------------------------------------------------------------ *)
FftB(pl0, v, n) == FftInternal(pl0, [k \in 1 .. n |-> <<IF k <= Len(v) THEN Md(v[k]) ELSE 0, 0>>], FALSE)

FftInvB(pl0, v) ==
    LET n == Len(v)
    IN IF n = 1 THEN <<pl0, <<Signed(v[1][1])>>>>
       ELSE LET half == Fold(v, pl0, n, InvPow2(1))
                g == FftInternal(pl0, half, TRUE)
            IN <<g[1], Flatten(g[2], 1)>>

PointwiseB(pl0, a, b, n) ==
    LET fa == FftB(pl0, a, n)
        fb == FftB(fa[1], b, n)
        prod == [k \in 1 .. n |-> CMul(fa[2][k], fb[2][k])]
    IN FftInvB(fb[1], prod)
=============================================================================
