-------------------------------- MODULE Fft --------------------------------
(***************************************************************************)
(* (A) Abstract specification of rlib_fft::FFT<F> (C04).  The transformer  *)
(* is an object whose only abstract state is how far its plan has grown;   *)
(* every result is a function of the arguments alone:                      *)
(*   multiply(a, b)            = Conv(a, b)  (length |a|+|b|-1; empty if   *)
(*                               an operand is empty)                      *)
(*   multiply_into(a, b, dst)  adds Conv(a, b) to the first |a|+|b|-1      *)
(*                               cells of dst and leaves the rest alone    *)
(*   fft_inv(fft(a,n) .* fft(b,n)) = Conv(a, b) padded with zeros to n     *)
(* Coefficients are native integers here (small model, replay cases);      *)
(* FftTrace recomputes convolutions of large coefficients exactly by       *)
(* splitting them into 10-bit halves.                                      *)
(***************************************************************************)
EXTENDS Integers, Sequences

RECURSIVE ConvAt(_, _, _, _)
\* coefficient k (0-based) of a*b: sum over i of a[i] * b[k - i]
ConvAt(a, b, k, i) ==
    IF i > Len(a) - 1 \/ i > k THEN 0
    ELSE (IF k - i <= Len(b) - 1 THEN a[i + 1] * b[k - i + 1] ELSE 0) + ConvAt(a, b, k, i + 1)
Conv(a, b) == IF a = <<>> \/ b = <<>> THEN <<>> ELSE [k \in 1 .. Len(a) + Len(b) - 1 |-> ConvAt(a, b, k - 1, 0)]

RECURSIVE TransformSize(_, _)
\* the transform size multiply uses: the least power of two >= max(2, |a|+|b|-1)
TransformSize(n, need) == IF n >= need THEN n ELSE TransformSize(2 * n, need)
SizeFor(a, b) == TransformSize(2, Len(a) + Len(b) - 1)

MultiplyResult(a, b) == Conv(a, b)
MultiplyIntoResult(a, b, dst) ==
    LET c == Conv(a, b) IN [i \in 1 .. Len(dst) |-> IF i <= Len(c) THEN dst[i] + c[i] ELSE dst[i]]
PointwiseResult(a, b, n) == LET c == Conv(a, b) IN [i \in 1 .. n |-> IF i <= Len(c) THEN c[i] ELSE 0]

\* fft_inv_into(fft(a) .* fft(b), dst): adds the n padded coefficients to the first n cells of dst, leaves the rest alone
InvIntoResult(a, b, n, dst) ==
    LET c == PointwiseResult(a, b, n) IN [i \in 1 .. Len(dst) |-> IF i <= n THEN dst[i] + c[i] ELSE dst[i]]

\* plan growth: the only state; it never influences a result
VARIABLE planSize
PlanAfter(n) == IF n > planSize THEN n ELSE planSize
=============================================================================
