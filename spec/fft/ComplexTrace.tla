---------------------------- MODULE ComplexTrace ----------------------------
(***************************************************************************)
(* Beyond the listed properties: rlib_fft::Complex<F> is the arithmetic    *)
(* the FFT is built on.  On small integer components floating point is     *)
(* exact, so the operators must agree with Gaussian-integer arithmetic:    *)
(*   tab{float,k,rows}   for all a, b, c, d in -k..k one row               *)
(*   [a, b, c, d, add, sub, mul, mul_assign, neg, conj, abs2, scale, div]  *)
(*   (pairs <<re, im>>; div = <<>> unless c^2 + d^2 divides both           *)
(*   components of (a+bi)(c-di), where the quotient is exact as well)      *)
(***************************************************************************)
EXTENDS Integers, Sequences, FiniteSets, TraceLib

VARIABLE l
Init == l = 1

GMul(a, b, c, d) == <<a * c - b * d, a * d + b * c>>

RowOK(r) ==
    LET a == r[1] b == r[2] c == r[3] d == r[4]
        n2 == c * c + d * d
        q == GMul(a, b, c, 0 - d)
    IN /\ r[5] = <<a + c, b + d>>
       /\ r[6] = <<a - c, b - d>>
       /\ r[7] = GMul(a, b, c, d) /\ r[8] = GMul(a, b, c, d)
       /\ r[9] = <<0 - a, 0 - b>>
       /\ r[10] = <<a, 0 - b>>
       /\ r[11] = a * a + b * b
       /\ r[12] = <<a * c, b * c>>                       \* Complex * real
       /\ (IF n2 # 0 /\ q[1] % n2 = 0 /\ q[2] % n2 = 0
           THEN r[13] = <<q[1] \div n2, q[2] \div n2>>   \* exact quotient
           ELSE TRUE)

Step(e) ==
    IF "panic" \in DOMAIN e THEN Mismatch(l, [ev |-> "tab", op |-> "complex", panic |-> e.panic], "must not panic")
    ELSE LET B == {i \in 1 .. Len(e.rows) : ~RowOK(e.rows[i])}
         IN (B # {}) => Mismatch(l, [ev |-> "tab", op |-> "complex", float |-> e.float], [wrong_rows |-> {e.rows[i] : i \in B}])

Next == l <= Len(Rec) /\ Step(Rec[l]) /\ l' = l + 1
Spec == Init /\ [][Next]_l
Accepted == TLCGet("stats").diameter = Len(Rec) + 1
            \/ PrintT("INCOMPLETE " \o ToString(TLCGet("stats").diameter) \o " of " \o ToString(Len(Rec) + 1))
=============================================================================
