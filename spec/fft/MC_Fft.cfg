SPECIFICATION Spec
CONSTANT MaxLen = 5
CONSTANT SharedByStride = TRUE
INVARIANT Refines
INVARIANT PlanOK
CHECK_DEADLOCK FALSE
