------------------------------ MODULE MC_Fft ------------------------------
(***************************************************************************)
(* Exhaustive model check of FftImpl (B) against Fft (A): the state is the *)
(* plan of one reused transformer; in every reachable plan state (every    *)
(* history of calls growing it in every order) every enabled call -- all   *)
(* length pairs up to MaxLen, coefficient vectors from a small family with *)
(* values -2..2 -- must return the integer convolution.                    *)
(***************************************************************************)
EXTENDS FftImpl, TLC

CONSTANT MaxLen

VARIABLE plan
vars == <<planSize, plan>>

Vec(len, salt) == [i \in 1 .. len |-> ((i * 3 + salt * 7) % 5) - 2]
Lens == 1 .. MaxLen

Init == planSize = 4 /\ plan = NewPlan

DoMultiply == \E la \in Lens, lb \in Lens :
                  /\ plan' = MultiplyB(plan, Vec(la, 1), Vec(lb, 2))[1]
                  /\ planSize' = Len(plan'.rev)
DoPointwise == \E la \in Lens, lb \in Lens :
                  LET n == SizeAtLeast(2, la + lb - 1) IN
                  /\ plan' = PointwiseB(plan, Vec(la, 1), Vec(lb, 2), n)[1]
                  /\ planSize' = Len(plan'.rev)
Next == DoMultiply \/ DoPointwise
Spec == Init /\ [][Next]_vars

\* refinement: results are functions of the arguments alone, equal to the abstract convolution
Refines ==
    \A la \in Lens, lb \in Lens : \A s \in {1, 3} :
        LET a == Vec(la, s) b == Vec(lb, s + 1)
            n == SizeAtLeast(2, la + lb - 1)
        IN /\ MultiplyB(plan, a, b)[2] = MultiplyResult(a, b)
           /\ PointwiseB(plan, a, b, n)[2] = PointwiseResult(a, b, n)

\* structural: the table holds the maxn-th roots of unity (w[i] * w[maxn - i] = 1, w[maxn] = 1) and a bit-reversal permutation
PlanOK ==
    LET maxn == Len(plan.rev)
    IN /\ Len(plan.w) = maxn + 1 /\ plan.w[maxn + 1] = COne /\ plan.w[1] = COne
       /\ \A i \in 0 .. maxn : CMul(plan.w[i + 1], plan.w[maxn - i + 1]) = COne
       /\ \A i \in 0 .. maxn - 1 : plan.w[i + 1] = CPow(plan.w[2], i)
       /\ {plan.rev[i] : i \in 1 .. maxn} = 0 .. maxn - 1
       /\ \A i \in 1 .. maxn : plan.rev[plan.rev[i] + 1] = i - 1
=============================================================================
