------------------------------ MODULE FftTrace ------------------------------
(***************************************************************************)
(* Implementation -> spec for C04: call histories recorded on ONE reused   *)
(* FFT<f64> / FFT<f32> object (random and adversarial size sequences:      *)
(* big -> small -> big, lengths 2^k and 2^k+1; positive, negative and      *)
(* mixed coefficients inside the precision envelope) are judged by the     *)
(* abstract specification: every checked output coefficient must be the    *)
(* exact integer convolution -- whatever the object computed before.       *)
(*   call{kind,float,a,b,dst,n,idx,res}                                    *)
(*     idx = the 0-based output indices that are checked (all of them for  *)
(*     short vectors, a sample incl. both ends for long ones), res = the   *)
(*     values the library returned there, as BigInt                        *)
(* Coefficients up to 1e6 and sums up to 1e12 exceed TLC's 32-bit          *)
(* integers: products are formed on 10-bit halves and accumulated in four  *)
(* base-1024 limbs, normalised at every term.                              *)
(***************************************************************************)
EXTENDS BigNat, TraceLib

VARIABLE l
Init == l = 1

AbsN(x) == IF x < 0 THEN 0 - x ELSE x
\* c = Hi(c) * 1024 + Lo(c), |Lo(c)| < 1024, both with the sign of c
Hi(c) == IF c < 0 THEN 0 - (AbsN(c) \div 1024) ELSE c \div 1024
Lo(c) == c - Hi(c) * 1024

\* add x*y to the accumulator <<c0, c1, c2, c3>> (weights 1, 2^10, 2^20, 2^30), c0..c2 kept in 0..1023
AccMul(acc, x, y) ==
    LET t0 == acc[1] + Lo(x) * Lo(y)
        t1 == acc[2] + Hi(x) * Lo(y) + Lo(x) * Hi(y) + (t0 \div 1024)
        t2 == acc[3] + Hi(x) * Hi(y) + (t1 \div 1024)
    IN <<t0 % 1024, t1 % 1024, t2 % 1024, acc[4] + (t2 \div 1024)>>

RECURSIVE ConvAcc(_, _, _, _, _, _)
\* terms i = lo .. hi of  sum a[i] * b[k - i]   (0-based indices)
ConvAcc(a, b, k, i, hi, acc) == IF i > hi THEN acc ELSE ConvAcc(a, b, k, i + 1, hi, AccMul(acc, a[i + 1], b[k - i + 1]))

MaxI(x, y) == IF x > y THEN x ELSE y
MinI(x, y) == IF x < y THEN x ELSE y
AccToBI(acc) ==
    BIAdd(BI(acc[4] < 0, BNShiftL(BNFromNat(AbsN(acc[4])), 30)), BIFromInt(acc[1] + 1024 * acc[2] + 1048576 * acc[3]))
\* exact coefficient k of a*b (zero beyond the end)
ConvAtBI(a, b, k) ==
    IF a = <<>> \/ b = <<>> \/ k > Len(a) + Len(b) - 2 THEN BIZero
    ELSE AccToBI(ConvAcc(a, b, k, MaxI(0, k - (Len(b) - 1)), MinI(k, Len(a) - 1), <<0, 0, 0, 0>>))

I(v) == BI(v.neg, v.mag)

\* what the specification demands at output index k (0-based) of this call
Want(e, k) ==
    CASE e.kind = "multiply" -> ConvAtBI(e.a, e.b, k)
      [] e.kind \in {"multiply_into", "multiply_into_short"} -> BIAdd(BIFromInt(e.dst[k + 1]), IF k <= Len(e.a) + Len(e.b) - 2 THEN ConvAtBI(e.a, e.b, k) ELSE BIZero)
      [] e.kind = "pointwise" -> ConvAtBI(e.a, e.b, k)
      [] e.kind \in {"inv_into", "inv_into_short"} -> BIAdd(BIFromInt(e.dst[k + 1]), IF k < e.n THEN ConvAtBI(e.a, e.b, k) ELSE BIZero)

LenOK(e) ==
    CASE e.kind = "multiply" -> e.len = (IF e.a = <<>> \/ e.b = <<>> THEN 0 ELSE Len(e.a) + Len(e.b) - 1)
      [] e.kind \in {"multiply_into", "multiply_into_short"} -> e.len = Len(e.dst)
      [] e.kind = "pointwise" -> e.len = e.n
      [] e.kind \in {"inv_into", "inv_into_short"} -> e.len = Len(e.dst)

Step(e) ==
    IF "panic" \in DOMAIN e THEN Mismatch(l, [ev |-> "call", op |-> e.kind, float |-> e.float, la |-> Len(e.a), lb |-> Len(e.b), panic |-> e.panic], "must not panic")
    ELSE CASE e.ev = "call" ->
                LET B == {j \in 1 .. Len(e.idx) : ~BIEq(I(e.res[j]), Want(e, e.idx[j]))}
                IN (B # {} \/ ~LenOK(e)) =>
                       Mismatch(l, [ev |-> "call", op |-> e.kind, float |-> e.float, la |-> Len(e.a), lb |-> Len(e.b), len |-> e.len, seq |-> e.seq],
                                [wrong_indices |-> {e.idx[j] : j \in B},
                                 first |-> IF B = {} THEN <<>> ELSE LET j == CHOOSE x \in B : \A y \in B : x <= y
                                                                  IN <<e.idx[j], e.res[j], Want(e, e.idx[j])>>])
           [] OTHER -> TRUE

Next == l <= Len(Rec) /\ Step(Rec[l]) /\ l' = l + 1
Spec == Init /\ [][Next]_l
Accepted == TLCGet("stats").diameter = Len(Rec) + 1
            \/ PrintT("INCOMPLETE " \o ToString(TLCGet("stats").diameter) \o " of " \o ToString(Len(Rec) + 1))
=============================================================================
