-------------------------------- MODULE Rand --------------------------------
(***************************************************************************)
(* (A) What C14 requires of every implementation of rlib_rand: the         *)
(* specification deliberately does NOT fix the mapping from raw generator  *)
(* output to values -- only its obligations.                               *)
(***************************************************************************)
EXTENDS BigNat, FiniteSets

\* the set a range form denotes for a type with `bits` bits: inclusive bounds <<lo, hi>> as BigInt
TypeMin(signed, bits) == IF signed THEN BI(TRUE, BNPow2(bits - 1)) ELSE BIZero
TypeMax(signed, bits) == BI(FALSE, BNSub(BNPow2(IF signed THEN bits - 1 ELSE bits), BNOne))
One == BIFromInt(1)
Bounds(form, a, b, signed, bits) ==
    CASE form = "range"        -> <<a, BISub(b, One)>>          \* a..b
      [] form = "inclusive"    -> <<a, b>>                       \* a..=b
      [] form = "to"           -> <<BIZero, BISub(b, One)>>      \* ..b
      [] form = "to_inclusive" -> <<BIZero, b>>                  \* ..=b
      [] form = "full"         -> <<TypeMin(signed, bits), TypeMax(signed, bits)>>
InBounds(v, bd) == BICmp(bd[1], v) <= 0 /\ BICmp(v, bd[2]) <= 0

(* ---- IEEE-754 double order on finite values given as [neg, mag] (mag = bits without the sign) ---- *)
FIsZero(x) == x.mag = <<>>
FLt(x, y) ==
    IF FIsZero(x) /\ FIsZero(y) THEN FALSE
    ELSE IF x.neg /\ ~y.neg THEN TRUE
    ELSE IF ~x.neg /\ y.neg THEN FALSE
    ELSE IF x.neg THEN BNLt(y.mag, x.mag) ELSE BNLt(x.mag, y.mag)
FLe(x, y) == FLt(x, y) \/ (x.neg = y.neg /\ x.mag = y.mag) \/ (FIsZero(x) /\ FIsZero(y))

(* ---- sequences --------------------------------------------------------------------- *)
IsPermutationOf(s, t) ==
    /\ Len(s) = Len(t)
    /\ \A x \in {s[i] : i \in 1 .. Len(s)} : Cardinality({i \in 1 .. Len(s) : s[i] = x}) = Cardinality({i \in 1 .. Len(t) : t[i] = x})

HasPeriod(s, p) == \A i \in 1 .. Len(s) - p : s[i] = s[i + p]
NotPeriodic(s, maxp) == \A p \in 1 .. maxp : ~HasPeriod(s, p)

RECURSIVE Fact(_)
Fact(k) == IF k <= 1 THEN 1 ELSE k * Fact(k - 1)
=============================================================================
