------------------------------ MODULE RandTrace ------------------------------
(***************************************************************************)
(* Implementation -> spec for C14.                                         *)
(*  draws{ty,signed,bits,form,a,b,vals}  gen_from_u64 on adversarial raw   *)
(*        outputs: every value must lie in the set the range form denotes  *)
(*  reach{ty,form,a,b,vals}      consecutive raws 0..4*len: every value of *)
(*        a small range occurs                                             *)
(*  fdraws{start,end,vals}       half-open float range: start <= x < end   *)
(*  streams{a,b,c}               same seed / copy of a generator           *)
(*  shuffle{inp,out}             a rearrangement of the same elements      *)
(*  hist{k,seeds,arrs,counts}    arrangements of 1..k reached over `seeds` *)
(*        seeds and how often: all k! present, each within 30% of the mean *)
(*  period{range_len,vals}       4096 consecutive draws from a small range *)
(***************************************************************************)
EXTENDS Rand, TraceLib

VARIABLE l
Init == l = 1
RECURSIVE P2N(_)
P2N(k) == IF k = 0 THEN 1 ELSE 2 * P2N(k - 1)
I(v) == BI(v.neg, v.mag)

Step(e) ==
    IF "panic" \in DOMAIN e THEN Mismatch(l, [ev |-> e.ev, op |-> e.op, panic |-> e.panic], "must not panic")
    ELSE CASE e.ev = "draws" ->
                LET bd == Bounds(e.form, I(e.a), I(e.b), e.signed, e.bits)
                    B == {i \in 1 .. Len(e.vals) : ~InBounds(I(e.vals[i]), bd)}
                IN (B # {}) => Mismatch(l, [ev |-> "draws", op |-> e.op, ty |-> e.ty, form |-> e.form, a |-> e.a, b |-> e.b],
                                        [outside_range |-> {[raw_index |-> i, value |-> e.vals[i]] : i \in B}])
           [] e.ev = "ndraws" ->
                \* the same on native integers (8- and 16-bit types): rows[i] = <<a, b, vals>>
                LET lo(r) == CASE e.form \in {"range", "inclusive"} -> r[1] [] e.form \in {"to", "to_inclusive"} -> 0
                                  [] OTHER -> (IF e.signed THEN 0 - P2N(e.bits - 1) ELSE 0)
                    hi(r) == CASE e.form \in {"range", "to"} -> r[2] - 1 [] e.form \in {"inclusive", "to_inclusive"} -> r[2]
                                  [] OTHER -> (IF e.signed THEN P2N(e.bits - 1) - 1 ELSE P2N(e.bits) - 1)
                    B == {i \in 1 .. Len(e.rows) : \E j \in 1 .. Len(e.rows[i][3]) : e.rows[i][3][j] < lo(e.rows[i]) \/ e.rows[i][3][j] > hi(e.rows[i])}
                IN (B # {}) => Mismatch(l, [ev |-> "ndraws", op |-> e.op, ty |-> e.ty, form |-> e.form], [outside_range |-> {e.rows[i] : i \in B}])
           [] e.ev = "reach" ->
                LET bd == Bounds(e.form, I(e.a), I(e.b), e.signed, e.bits)
                    got == {I(e.vals[i]) : i \in 1 .. Len(e.vals)}
                    size == BNToNat(BISub(bd[2], bd[1]).mag) + 1
                IN (~((\A v \in got : InBounds(v, bd)) /\ Cardinality(got) = size)) =>
                       Mismatch(l, [ev |-> "reach", op |-> e.op, ty |-> e.ty, form |-> e.form, a |-> e.a, b |-> e.b], [distinct_values |-> Cardinality(got), range_size |-> size])
           [] e.ev = "fdraws" ->
                LET B == {i \in 1 .. Len(e.vals) : ~(FLe(e.start, e.vals[i]) /\ FLt(e.vals[i], e.end))}
                IN (B # {}) => Mismatch(l, [ev |-> "fdraws", op |-> e.op, start |-> e.start_text, end |-> e.end_text],
                                        [not_in_half_open_range |-> {[raw |-> e.raws[i], value |-> e.vals_text[i]] : i \in B}])
           [] e.ev = "streams" ->
                (~(e.a = e.b /\ e.a = e.c)) => Mismatch(l, [ev |-> "streams", op |-> e.op], "equal seeds / a copy of the generator give different streams")
           [] e.ev = "shuffle" ->
                (~IsPermutationOf(e.out, e.inp)) => Mismatch(l, e, "not a rearrangement of the same elements")
           [] e.ev = "hist" ->
                LET mean10 == (10 * e.seeds) \div Fact(e.k)
                    B == {i \in 1 .. Len(e.counts) : 10 * e.counts[i] < 7 * (mean10 \div 10) \/ 10 * e.counts[i] > 13 * (mean10 \div 10) + 13}
                IN (Len(e.arrs) # Fact(e.k) \/ B # {}) =>
                       Mismatch(l, [ev |-> "hist", op |-> e.op, k |-> e.k, seeds |-> e.seeds],
                                [arrangements_reached |-> Len(e.arrs), of |-> Fact(e.k), outside_30_percent |-> {<<e.arrs[i], e.counts[i]>> : i \in B}])
           [] e.ev = "period" ->
                \* periods up to 64, and up to 300 for ranges of 256 values (a generator that cycles through the range)
                LET mp == IF e.range_len >= 256 THEN 300 ELSE 64
                IN (~NotPeriodic(e.vals, mp)) => Mismatch(l, [ev |-> "period", op |-> e.op, range_len |-> e.range_len, head |-> SubSeq(e.vals, 1, 16)],
                                                          [periods |-> {p \in 1 .. mp : HasPeriod(e.vals, p)}])
           [] OTHER -> TRUE

Next == l <= Len(Rec) /\ Step(Rec[l]) /\ l' = l + 1
Spec == Init /\ [][Next]_l
Accepted == TLCGet("stats").diameter = Len(Rec) + 1
            \/ PrintT("INCOMPLETE " \o ToString(TLCGet("stats").diameter) \o " of " \o ToString(Len(Rec) + 1))
=============================================================================
