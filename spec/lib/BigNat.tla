------------------------------- MODULE BigNat -------------------------------
(***************************************************************************)
(* Natural numbers beyond TLC's 32-bit integers: little-endian sequences   *)
(* of 12-bit limbs (limb products stay below 2^24, column sums of a        *)
(* 128x128-bit product below 2^31).  Canonical form: no most-significant   *)
(* zero limb; zero is <<>>.  All operators return canonical values when    *)
(* given canonical arguments.  Deliberately no general division: users     *)
(* state defining relations (a = q*m + r) and bind quotients from the      *)
(* trace as witnesses.                                                     *)
(***************************************************************************)
EXTENDS Integers, Sequences

BNBase == 4096
BNBits == 12

BNZero == <<>>
BNOne == <<1>>

IsBN(a) == /\ \A i \in 1 .. Len(a) : a[i] \in 0 .. BNBase - 1
           /\ (Len(a) > 0 => a[Len(a)] # 0)

RECURSIVE BNNorm(_)
BNNorm(a) == IF a # <<>> /\ a[Len(a)] = 0 THEN BNNorm(SubSeq(a, 1, Len(a) - 1)) ELSE a

RECURSIVE BNFromNat(_)
BNFromNat(n) == IF n = 0 THEN <<>> ELSE <<n % BNBase>> \o BNFromNat(n \div BNBase)

RECURSIVE BNToNatRec(_, _)
BNToNatRec(a, i) == IF i > Len(a) THEN 0 ELSE a[i] + BNBase * BNToNatRec(a, i + 1)
\* only for values known to fit 31 bits
BNToNat(a) == BNToNatRec(a, 1)

Limb(a, i) == IF i <= Len(a) THEN a[i] ELSE 0
MaxI2(x, y) == IF x > y THEN x ELSE y

RECURSIVE BNAddRec(_, _, _, _)
BNAddRec(a, b, i, c) ==
    IF i > Len(a) /\ i > Len(b)
    THEN (IF c = 0 THEN <<>> ELSE <<c>>)
    ELSE LET x == Limb(a, i) + Limb(b, i) + c
         IN <<x % BNBase>> \o BNAddRec(a, b, i + 1, x \div BNBase)
BNAdd(a, b) == BNAddRec(a, b, 1, 0)

\* a - b for a >= b
RECURSIVE BNSubRec(_, _, _, _)
BNSubRec(a, b, i, br) ==
    IF i > Len(a) THEN <<>>
    ELSE LET x == Limb(a, i) - Limb(b, i) - br
         IN IF x < 0 THEN <<x + BNBase>> \o BNSubRec(a, b, i + 1, 1)
            ELSE <<x>> \o BNSubRec(a, b, i + 1, 0)
BNSub(a, b) == BNNorm(BNSubRec(a, b, 1, 0))

\* -1, 0, 1
RECURSIVE BNCmpRec(_, _, _)
BNCmpRec(a, b, i) ==
    IF i = 0 THEN 0
    ELSE IF a[i] < b[i] THEN -1
    ELSE IF a[i] > b[i] THEN 1
    ELSE BNCmpRec(a, b, i - 1)
BNCmp(a, b) ==
    IF Len(a) < Len(b) THEN -1
    ELSE IF Len(a) > Len(b) THEN 1
    ELSE BNCmpRec(a, b, Len(a))
BNLe(a, b) == BNCmp(a, b) <= 0
BNLt(a, b) == BNCmp(a, b) < 0
BNEq(a, b) == a = b

\* a * k + c for native 0 <= k < 2^18, 0 <= c < 2^30
RECURSIVE BNMulSmallRec(_, _, _, _)
BNMulSmallRec(a, k, i, c) ==
    IF i > Len(a)
    THEN BNFromNat(c)
    ELSE LET x == a[i] * k + c
         IN <<x % BNBase>> \o BNMulSmallRec(a, k, i + 1, x \div BNBase)
BNMulAddSmall(a, k, c) == IF k = 0 THEN BNFromNat(c) ELSE BNMulSmallRec(a, k, 1, c)
BNMulSmall(a, k) == BNMulAddSmall(a, k, 0)

\* column-wise schoolbook product
RECURSIVE BNColSum(_, _, _, _)
BNColSum(a, b, col, i) ==
    \* sum over i' >= i of a[i'] * b[col - i' + 1]
    IF i > Len(a) \/ i > col THEN 0
    ELSE (IF col - i + 1 <= Len(b) THEN a[i] * b[col - i + 1] ELSE 0) + BNColSum(a, b, col, i + 1)

RECURSIVE BNMulRec(_, _, _, _)
BNMulRec(a, b, col, c) ==
    IF col > Len(a) + Len(b)
    THEN BNFromNat(c)
    ELSE LET x == BNColSum(a, b, col, 1) + c
         IN <<x % BNBase>> \o BNMulRec(a, b, col + 1, x \div BNBase)
BNMul(a, b) == IF a = <<>> \/ b = <<>> THEN <<>> ELSE BNNorm(BNMulRec(a, b, 1, 0))

\* number of bits
RECURSIVE BitLenSmall(_)
BitLenSmall(n) == IF n = 0 THEN 0 ELSE 1 + BitLenSmall(n \div 2)
BNBitLen(a) == IF a = <<>> THEN 0 ELSE (Len(a) - 1) * BNBits + BitLenSmall(a[Len(a)])

RECURSIVE Pow2Small(_)
Pow2Small(k) == IF k = 0 THEN 1 ELSE 2 * Pow2Small(k - 1)

\* a * 2^k
BNShiftL(a, k) ==
    IF a = <<>> THEN <<>>
    ELSE [i \in 1 .. (k \div BNBits) |-> 0] \o BNMulSmall(a, Pow2Small(k % BNBits))

\* 2^k
BNPow2(k) == BNShiftL(BNOne, k)

BNIsEven(a) == a = <<>> \/ a[1] % 2 = 0

\* value of a decimal digit string (sequence of ASCII codes), by Horner
RECURSIVE BNFromDigitsRec(_, _, _)
BNFromDigitsRec(s, i, acc) ==
    IF i > Len(s) THEN acc ELSE BNFromDigitsRec(s, i + 1, BNMulAddSmall(acc, 10, s[i] - 48))
BNFromDigits(s) == BNFromDigitsRec(s, 1, <<>>)

(* ---- signed ------------------------------------------------------------- *)
\* [neg |-> BOOLEAN, mag |-> BigNat]; zero has neg = FALSE
BI(neg, mag) == [neg |-> neg /\ mag # <<>>, mag |-> mag]
BIZero == BI(FALSE, <<>>)
BIFromInt(n) == IF n < 0 THEN BI(TRUE, BNFromNat(-n)) ELSE BI(FALSE, BNFromNat(n))
IsBI(x) == IsBN(x.mag) /\ (x.mag = <<>> => ~x.neg)
BINeg(x) == BI(~x.neg, x.mag)
BIAdd(x, y) ==
    IF x.neg = y.neg THEN BI(x.neg, BNAdd(x.mag, y.mag))
    ELSE IF BNCmp(x.mag, y.mag) >= 0 THEN BI(x.neg, BNSub(x.mag, y.mag))
    ELSE BI(y.neg, BNSub(y.mag, x.mag))
BISub(x, y) == BIAdd(x, BINeg(y))
BIMul(x, y) == BI(x.neg # y.neg, BNMul(x.mag, y.mag))
BICmp(x, y) ==
    IF x.neg /\ ~y.neg THEN -1
    ELSE IF ~x.neg /\ y.neg THEN 1
    ELSE IF x.neg THEN BNCmp(y.mag, x.mag)
    ELSE BNCmp(x.mag, y.mag)
BISign(x) == IF x.mag = <<>> THEN 0 ELSE IF x.neg THEN -1 ELSE 1
BIEq(x, y) == x.neg = y.neg /\ x.mag = y.mag
BIAbs(x) == BI(FALSE, x.mag)
=============================================================================
