------------------------------ MODULE TraceLib ------------------------------
(***************************************************************************)
(* Conventions shared by all trace specifications and generators.          *)
(*                                                                         *)
(*  Rec          the recorded ndjson trace (env TRACE), a sequence of      *)
(*               records; JSON arrays are 1-based TLA+ sequences           *)
(*  Mismatch     monitor-style report: the trace spec keeps consuming      *)
(*               lines after a disagreement and prints one line per        *)
(*               disagreement with what the specification demanded         *)
(*  Emit         one line of output for the replay direction (env OUT)     *)
(***************************************************************************)
EXTENDS TLC, Json, IOUtils, Sequences, Integers, CSV

Rec == ndJsonDeserialize(IOEnv.TRACE)

Mismatch(line, got, want) ==
    PrintT("MISMATCH " \o ToJson([line |-> line, got |-> got, want |-> want]))

\* a countable remark (e.g. an event that was outside the property's quantifier and therefore not judged)
Note(tag) == PrintT("NOTE " \o tag)

\* TRUE after writing one line (a JSON string literal whose content is JSON)
Emit(x) == CSVWrite("%1$s", <<ToJson(x)>>, IOEnv.OUT)

B2I(b) == IF b THEN 1 ELSE 0
=============================================================================
