-------------------------------- MODULE Show --------------------------------
(***************************************************************************)
(* Beyond the listed properties: the rendering rules of rlib_show          *)
(* (debug printing of values and containers) and of the Debug / TreePrinter*)
(* impls of rlib_treap.                                                    *)
(*                                                                         *)
(* Strings are sequences of byte values (ASCII only).  A value is a tree:  *)
(*   [k |-> "int", w |-> 32|64|128, neg, mag (BigNat), s]                  *)
(*   [k |-> "float", neg, cls ("fin"|"inf"|"nan"), m (BigNat), e, s]       *)
(*                                    value = (-1)^neg * m * 2^e           *)
(*   [k |-> "str", raw, s]  [k |-> "char", c, s]  [k |-> "bool", b, s]     *)
(*   [k |-> "list"|"set"|"tuple", items]    [k |-> "map", keys, vals]      *)
(* Leaves carry the text `s` the implementation produced for them on their *)
(* own; LeafOK judges that text, Render builds the text of containers from *)
(* the leaf texts.  Sets and maps are the BTree ones: `items` / `keys` are *)
(* in iteration (= ascending) order.                                       *)
(*                                                                         *)
(* Settings: inf32, inf64, inf128 (BigNat thresholds), prec, width.        *)
(***************************************************************************)
EXTENDS BigNat

Spaces(n) == [i \in 1 .. n |-> 32]
PadLeft(s, w) == IF Len(s) >= w THEN s ELSE Spaces(w - Len(s)) \o s      \* "{: >w$}"  right-aligned
PadRight(s, w) == IF Len(s) >= w THEN s ELSE s \o Spaces(w - Len(s))     \* "{:<w$}"   left-aligned

RECURSIVE JoinFrom(_, _, _)
JoinFrom(parts, sep, i) ==
    IF i > Len(parts) THEN <<>>
    ELSE IF i = Len(parts) THEN parts[i]
    ELSE parts[i] \o sep \o JoinFrom(parts, sep, i + 1)
Join(parts, sep) == JoinFrom(parts, sep, 1)

CommaSp == <<44, 32>>
MaxN(a, b) == IF a > b THEN a ELSE b

(* ---- leaves -------------------------------------------------------------- *)
AllDigits(sq) == Len(sq) > 0 /\ \A i \in 1 .. Len(sq) : sq[i] >= 48 /\ sq[i] <= 57
IsDecimal(sq, mag) == AllDigits(sq) /\ (Len(sq) > 1 => sq[1] # 48) /\ BNFromDigits(sq) = mag

InfOf(st, w) == IF w = 32 THEN st.inf32 ELSE IF w = 64 THEN st.inf64 ELSE st.inf128

\* integers: decimal text while |v| is below the threshold of the type's class, "inf" / "-inf" from there on
IntOK(v, st) ==
    IF BNLt(v.mag, InfOf(st, v.w))
    THEN IF v.neg THEN Len(v.s) > 1 /\ v.s[1] = 45 /\ IsDecimal(Tail(v.s), v.mag) ELSE IsDecimal(v.s, v.mag)
    ELSE v.s = (IF v.neg THEN <<45, 105, 110, 102>> ELSE <<105, 110, 102>>)

RECURSIVE BNPow10(_)
BNPow10(p) == IF p = 0 THEN BNOne ELSE BNMulSmall(BNPow10(p - 1), 10)

\* position of the decimal point (0 if none)
RECURSIVE FindByte(_, _, _)
FindByte(s, b, i) == IF i > Len(s) THEN 0 ELSE IF s[i] = b THEN i ELSE FindByte(s, b, i + 1)

\* fixed notation with exactly prec fraction digits, correctly rounded (ties to even), sign kept on zeros
FloatOK(v, st) ==
    CASE v.cls = "nan" -> v.s = <<78, 97, 78>>
      [] v.cls = "inf" -> v.s = (IF v.neg THEN <<45, 105, 110, 102>> ELSE <<105, 110, 102>>)
      [] OTHER ->
        LET body == IF v.neg THEN Tail(v.s) ELSE v.s
            dot == FindByte(body, 46, 1)
            ip == IF dot = 0 THEN body ELSE SubSeq(body, 1, dot - 1)
            fp == IF dot = 0 THEN <<>> ELSE SubSeq(body, dot + 1, Len(body))
            D == BNFromDigits(ip \o fp)                   \* the text as an integer number of 10^-prec units
            \* exact value in those units is m * 10^prec * 2^e: compare 2*|x - D| with 1 after clearing 2^e
            num == BNMul(v.m, BNPow10(st.prec))            \* x = num * 2^e
            sc == IF v.e >= 0 THEN BNOne ELSE BNPow2(0 - v.e)
            X == IF v.e >= 0 THEN BNShiftL(num, v.e) ELSE num   \* x * sc
            DS == BNMul(D, sc)                                \* D * sc
            diff2 == BNMulSmall(IF BNLe(X, DS) THEN BNSub(DS, X) ELSE BNSub(X, DS), 2)
            c == BNCmp(diff2, sc)
        IN /\ (v.neg => Len(v.s) > 1 /\ v.s[1] = 45)
           /\ Len(body) > 0
           /\ (IF st.prec = 0 THEN dot = 0 ELSE dot > 1 /\ Len(fp) = st.prec)
           /\ AllDigits(ip) /\ (Len(ip) > 1 => ip[1] # 48) /\ (st.prec > 0 => AllDigits(fp))
           /\ (c < 0 \/ (c = 0 /\ BNIsEven(D)))

LeafOK(v, st) ==
    CASE v.k = "int" -> IntOK(v, st)
      [] v.k = "float" -> FloatOK(v, st)
      [] v.k = "str" -> v.s = <<34>> \o v.raw \o <<34>>
      [] v.k = "char" -> v.s = <<39, v.c, 39>>
      [] v.k = "bool" -> v.s = (IF v.b THEN <<116, 114, 117, 101>> ELSE <<102, 97, 108, 115, 101>>)
      [] OTHER -> TRUE

IsLeaf(v) == v.k \in {"int", "float", "str", "char", "bool"}

RECURSIVE AllLeavesOK(_, _)
AllLeavesOK(v, st) ==
    IF IsLeaf(v) THEN LeafOK(v, st)
    ELSE IF v.k = "map" THEN (\A i \in 1 .. Len(v.keys) : AllLeavesOK(v.keys[i], st) /\ AllLeavesOK(v.vals[i], st))
    ELSE \A i \in 1 .. Len(v.items) : AllLeavesOK(v.items[i], st)

(* ---- containers ---------------------------------------------------------- *)
RECURSIVE Render(_, _)
Render(v, st) ==
    CASE IsLeaf(v) -> v.s
      [] v.k = "list" -> <<91>> \o Join([i \in 1 .. Len(v.items) |-> PadLeft(Render(v.items[i], st), st.width)], CommaSp) \o <<93>>
      [] v.k = "set" -> <<123>> \o Join([i \in 1 .. Len(v.items) |-> PadLeft(Render(v.items[i], st), st.width)], CommaSp) \o <<125>>
      [] v.k = "tuple" -> <<40>> \o Join([i \in 1 .. Len(v.items) |-> Render(v.items[i], st)], CommaSp) \o <<41>>
      [] v.k = "map" -> <<123>> \o Join([i \in 1 .. Len(v.keys) |->
                            <<40>> \o PadLeft(Render(v.keys[i], st), st.width) \o CommaSp \o PadLeft(Render(v.vals[i], st), st.width) \o <<41>>],
                            CommaSp) \o <<125>>
      [] v.k = "struct" -> <<123>> \o Join([i \in 1 .. Len(v.items) |-> v.names[i] \o <<58, 32>> \o Render(v.items[i], st)], CommaSp) \o <<125>>

(* ---- show_pretty ---------------------------------------------------------- *)
\* matrix = sequence of rows of values; every column as wide as its widest entry (at least `width`), entries
\* right-aligned; first line opens with '[', the others with ' '; last line closes with ']', the others with ','
ColWidth(cells, j, st) ==
    LET R == {i \in 1 .. Len(cells) : j <= Len(cells[i])}
        RECURSIVE mx(_)
        mx(S) == IF S = {} THEN st.width ELSE LET i == CHOOSE i \in S : TRUE IN MaxN(Len(cells[i][j]), mx(S \ {i}))
    IN mx(R)
PrettyMatrix(rows, st) ==
    LET cells == [i \in 1 .. Len(rows) |-> [j \in 1 .. Len(rows[i]) |-> Render(rows[i][j], st)]]
        line(i) == <<(IF i = 1 THEN 91 ELSE 32)>> \o <<91>> \o
                   Join([j \in 1 .. Len(cells[i]) |-> PadLeft(cells[i][j], ColWidth(cells, j, st))], CommaSp) \o
                   <<93>> \o <<(IF i = Len(rows) THEN 93 ELSE 44)>>
    IN Join([i \in 1 .. Len(rows) |-> line(i)], <<10>>)

\* map: "key: value" lines, both columns left-aligned to their widest entry
RECURSIVE MaxLen(_, _, _)
MaxLen(strs, i, acc) == IF i > Len(strs) THEN acc ELSE MaxLen(strs, i + 1, MaxN(acc, Len(strs[i])))
PrettyMap(v, st) ==
    LET ks == [i \in 1 .. Len(v.keys) |-> Render(v.keys[i], st)]
        vs == [i \in 1 .. Len(v.vals) |-> Render(v.vals[i], st)]
        kw == MaxLen(ks, 1, st.width)
        vw == MaxLen(vs, 1, st.width)
        line(i) == <<(IF i = 1 THEN 123 ELSE 32)>> \o PadRight(ks[i], kw) \o <<58, 32>> \o PadRight(vs[i], vw) \o
                   <<(IF i = Len(ks) THEN 125 ELSE 44)>>
    IN Join([i \in 1 .. Len(ks) |-> line(i)], <<10>>)

(* ---- rlib_treap: Debug and TreePrinter ------------------------------------- *)
\* a tree in preorder: pre[i] = <<item text, size of left subtree, size of right subtree>>
\* Debug: the items in order, each followed by one space
RECURSIVE DebugAt(_, _)
DebugAt(pre, i) ==
    LET ls == pre[i][2]
        rs == pre[i][3]
    IN (IF ls > 0 THEN DebugAt(pre, i + 1) ELSE <<>>) \o pre[i][1] \o <<32>> \o (IF rs > 0 THEN DebugAt(pre, i + 1 + ls) ELSE <<>>)
TreapDebug(pre) == IF Len(pre) = 0 THEN <<>> ELSE DebugAt(pre, 1)

\* TreePrinter: one line per node "<indent>- <item>", children indented by 3 more, a missing child "- [None]"
NoneLine(ind) == Spaces(ind) \o <<45, 32, 91, 78, 111, 110, 101, 93, 10>>
RECURSIVE PrintAt(_, _, _)
PrintAt(pre, i, ind) ==
    LET ls == pre[i][2]
        rs == pre[i][3]
    IN Spaces(ind) \o <<45, 32>> \o pre[i][1] \o <<10>> \o
       (IF ls > 0 THEN PrintAt(pre, i + 1, ind + 3) ELSE NoneLine(ind + 3)) \o
       (IF rs > 0 THEN PrintAt(pre, i + 1 + ls, ind + 3) ELSE NoneLine(ind + 3))
TreePrint(pre) == IF Len(pre) = 0 THEN NoneLine(0) ELSE PrintAt(pre, 1, 0)

(* ---- rlib_io output macros ---------------------------------------------------- *)
\* out!(a, b, c) writes the items separated by one space; outln! appends a newline; outln!() writes just the newline
OutText(parts, ln) == Join(parts, <<32>>) \o (IF ln THEN <<10>> ELSE <<>>)
=============================================================================
