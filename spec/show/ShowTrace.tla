------------------------------ MODULE ShowTrace ------------------------------
(***************************************************************************)
(* Implementation -> spec for the rendering rules of module Show: values   *)
(* built by the harness are shown by the real code; every produced text    *)
(* must be the one the specification defines.  Monitor style.              *)
(*   reset{inf32,inf64,inf128,prec,width}       new ShowSettings              *)
(*   show{v,out}  pretty_matrix{rows,out}  pretty_map{v,out}               *)
(*   treap_debug{pre,out}  tree_print{pre,out}  out{parts,ln,sink}         *)
(***************************************************************************)
EXTENDS Show, TraceLib

VARIABLES st, l
tvars == <<st, l>>

Init == l = 1 /\ st = [inf32 |-> <<>>, inf64 |-> <<>>, inf128 |-> <<>>, prec |-> 0, width |-> 0]

Cmp(e, want) == (e.out # want) => Mismatch(l, e, [out |-> want])

Step(e) ==
    CASE e.ev = "reset" -> st' = [inf32 |-> e.inf32, inf64 |-> e.inf64, inf128 |-> e.inf128, prec |-> e.prec, width |-> e.width]
      [] e.ev = "show" ->
            /\ (~AllLeavesOK(e.v, st)) => Mismatch(l, e, "a leaf is not rendered by its rule")
            /\ Cmp(e, Render(e.v, st)) /\ UNCHANGED st
      [] e.ev = "pretty_matrix" -> Cmp(e, PrettyMatrix(e.rows, st)) /\ UNCHANGED st
      [] e.ev = "pretty_map" -> Cmp(e, PrettyMap(e.v, st)) /\ UNCHANGED st
      [] e.ev = "treap_debug" -> Cmp(e, TreapDebug(e.pre)) /\ UNCHANGED st
      [] e.ev = "tree_print" -> Cmp(e, TreePrint(e.pre)) /\ UNCHANGED st
      [] e.ev = "out" -> Cmp(e, OutText(e.parts, e.ln)) /\ UNCHANGED st
      [] OTHER -> Mismatch(l, e, "unknown event") /\ UNCHANGED st

Next == l <= Len(Rec) /\ Step(Rec[l]) /\ l' = l + 1
Spec == Init /\ [][Next]_tvars

Accepted == TLCGet("stats").diameter = Len(Rec) + 1
            \/ PrintT("INCOMPLETE " \o ToString(TLCGet("stats").diameter) \o " of " \o ToString(Len(Rec) + 1))
=============================================================================
