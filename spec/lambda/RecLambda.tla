----------------------------- MODULE RecLambda -----------------------------
(***************************************************************************)
(* C20: rec_lambda! closures equal explicit recursion, for every supported *)
(* shape of the macro.  A program shape is                                 *)
(*   caps   sequence over {"ref","mut"} of length 0..4: the captured       *)
(*          variables, shared (&T) or mutable (&mut T), in written order   *)
(*   nargs  1..4 arguments                                                 *)
(*   ret    with a return type (-> i64) or without                         *)
(*   comma  recursive calls written with a trailing comma or without       *)
(* The specification fixes one canonical recursive body per shape and      *)
(* DEFINES its meaning by explicit recursion on integers:                  *)
(*                                                                         *)
(*   body(a1..an):                                                         *)
(*     S = sum of the shared captures                                      *)
(*     if a1 <= 0 { every mutable capture += 1; return S + an }            *)
(*     every mutable capture = 2*capture + a1 + S + H(a1)                  *)
(*     r1 = rec(a1-1, a3, .., an, a2)            (tail arguments rotated)  *)
(*     r2 = if a1 even { rec(a1-2, a2, .., an) } else { 0 }                *)
(*     r3 = rec(0, a2, .., rec(0, a2, .., an))   (with a return type and   *)
(*          at least two arguments: a call nested in a call's argument)    *)
(*     return r1 + 3*r2 + a1 * (first shared capture, or 1) + H(a1) + r3   *)
(*   where H(x) = x mod 3 is a free helper function; in the generated      *)
(*   programs it carries the very name of the recursion macro (functions   *)
(*   and macros live in different namespaces, so the body must reach it).  *)
(*                                                                         *)
(* It reads every shared capture, mutates every mutable one, branches on   *)
(* the arguments and recurses twice with permuted / decremented arguments. *)
(* TLC enumerates all 496 shapes and emits, per shape and input, the       *)
(* return value and the final values of the captured variables; a          *)
(* generator turns every line into a Rust test that invokes the macro with *)
(* exactly that shape.                                                     *)
(***************************************************************************)
EXTENDS Integers, Sequences, TraceLib

RECURSIVE SeqsOver(_, _)
SeqsOver(S, k) == IF k = 0 THEN {<<>>} ELSE {Append(s, x) : s \in SeqsOver(S, k - 1), x \in S}
\* 4 and 4 in the quick tier (the property's quantifier: 496 shapes); the thorough tier goes beyond it
CONSTANTS MaxCaps, MaxArgs
CapSeqs == UNION {SeqsOver({"ref", "mut"}, k) : k \in 0 .. MaxCaps}
\* reftag: one more, reference-typed (&i64) argument that every recursive call passes on unchanged and the base case reads;
\* the generated test then calls the SAME closure twice, each time with a borrow of another short-lived local
Shapes == [caps : CapSeqs, nargs : 1 .. MaxArgs, ret : BOOLEAN, comma : BOOLEAN, reftag : BOOLEAN]
TagValue == 7

RECURSIVE SharedSumRec(_, _, _)
SharedSumRec(sh, caps, i) == IF i > Len(caps) THEN 0 ELSE (IF sh.caps[i] = "ref" THEN caps[i] ELSE 0) + SharedSumRec(sh, caps, i + 1)
SharedSum(sh, caps) == SharedSumRec(sh, caps, 1)
FirstShared(sh, caps) ==
    LET R == {i \in 1 .. Len(caps) : sh.caps[i] = "ref"}
    IN IF R = {} THEN 1 ELSE caps[CHOOSE i \in R : \A j \in R : i <= j]

Rotate(args) ==      \* (a1, a2, a3, .., an) -> (a1, a3, .., an, a2)
    IF Len(args) <= 2 THEN args ELSE <<args[1]>> \o SubSeq(args, 3, Len(args)) \o <<args[2]>>

Helper(x) == x % 3      \* arguments reaching it are >= 1

RECURSIVE Run(_, _, _)
\* the meaning of one call: [ret |-> value, caps |-> captured variables afterwards]
Run(sh, caps, args) ==
    LET a1 == args[1]
        S  == SharedSum(sh, caps)
    IN IF a1 <= 0
       THEN [ret |-> S + args[Len(args)] + (IF sh.reftag THEN TagValue ELSE 0),
             caps |-> [i \in 1 .. Len(caps) |-> IF sh.caps[i] = "mut" THEN caps[i] + 1 ELSE caps[i]]]
       ELSE LET c1 == [i \in 1 .. Len(caps) |-> IF sh.caps[i] = "mut" THEN 2 * caps[i] + a1 + S + Helper(a1) ELSE caps[i]]
                r1 == Run(sh, c1, Rotate([args EXCEPT ![1] = a1 - 1]))
                r2 == IF a1 % 2 = 0 THEN Run(sh, r1.caps, [args EXCEPT ![1] = a1 - 2]) ELSE [ret |-> 0, caps |-> r1.caps]
                \* with a return type and at least two arguments: r3 = rec(0, a2, .., rec(0, a2, .., an)) -- a recursive call
                \* whose last argument is itself a recursive call (both reach the base case at once)
                nested == sh.ret /\ Len(args) >= 2
                inner == IF nested THEN Run(sh, r2.caps, [args EXCEPT ![1] = 0]) ELSE [ret |-> 0, caps |-> r2.caps]
                outer == IF nested THEN Run(sh, inner.caps, [args EXCEPT ![1] = 0, ![Len(args)] = inner.ret]) ELSE [ret |-> 0, caps |-> r2.caps]
            IN [ret |-> r1.ret + 3 * r2.ret + a1 * FirstShared(sh, caps) + Helper(a1) + outer.ret, caps |-> outer.caps]

InitCaps(sh) == [i \in 1 .. Len(sh.caps) |-> i + 2]
Inputs(sh) == {[j \in 1 .. sh.nargs |-> IF j = 1 THEN a ELSE 4 + j] : a \in {0, 3, 4}}

VARIABLE sh
Init == sh \in Shapes
Next == UNCHANGED sh
Spec == Init /\ [][Next]_sh

EmitShape ==
    Emit([caps |-> sh.caps, nargs |-> sh.nargs, ret |-> sh.ret, comma |-> sh.comma, reftag |-> sh.reftag, init |-> InitCaps(sh),
          \* ret2 / caps2: the same closure called a second time with the same arguments (used by the reftag shapes)
          runs |-> {LET r1 == Run(sh, InitCaps(sh), a)
                        r2 == Run(sh, r1.caps, a)
                    IN [args |-> a, ret |-> r1.ret, caps |-> r1.caps, ret2 |-> r2.ret, caps2 |-> r2.caps] : a \in Inputs(sh)}])
=============================================================================
