SPECIFICATION Spec
INVARIANT EmitShape
CHECK_DEADLOCK FALSE
