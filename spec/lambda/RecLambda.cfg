SPECIFICATION Spec
INVARIANT EmitShape
CHECK_DEADLOCK FALSE
CONSTANT MaxCaps = 4
CONSTANT MaxArgs = 4
