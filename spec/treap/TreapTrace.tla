----------------------------- MODULE TreapTrace -----------------------------
(***************************************************************************)
(* Implementation -> spec for C03 and C16.                                 *)
(*                                                                         *)
(* C03: operation traces of the real Treap (the crate's own random         *)
(* priorities, up to 8 live treaps, sizes up to a few thousand) judged by  *)
(* the sequence specification (A).                                         *)
(*   from_item{s,c} merge{a,b} split_at{a,b,pos} split_by{a,b,k}           *)
(*   insert_at{a,pos,c} remove_at{a,pos,res} root_modify{a,m}              *)
(*   first/last/size/is_empty{a,res} agg{a,res} collect{a,res}             *)
(*                                                                         *)
(* C16: shape events judged on the structure itself.                       *)
(*   shape{pre}     whole tree (<= 64 nodes) in preorder, each node        *)
(*                  <<priority, size of left subtree, size of right        *)
(*                  subtree>>: heap order along every edge in one          *)
(*                  direction, height within the bound                     *)
(*   ckpt{n,height,bad_min,bad_max}  big trees, walked by the harness over *)
(*                  the public node fields: height counted in edges,       *)
(*                  number of edges violating min-heap / max-heap order    *)
(***************************************************************************)
EXTENDS Treap, BigNat, TraceLib

VARIABLE l
tvars == <<seqs, l>>

Init == seqs = [s \in Slots |-> <<>>] /\ l = 1

\* 5 * log2(n + 1) + 20, over-approximated in integers (never demands more than the property)
RECURSIVE BitLenN(_)
BitLenN(k) == IF k = 0 THEN 0 ELSE 1 + BitLenN(k \div 2)
HeightBound(k) == 5 * BitLenN(k + 1) + 20

\* ---- structure checks on a preorder listing ------------------------------------
RECURSIVE HeightAt(_, _)
\* height in edges of the subtree whose root is entry i
HeightAt(pre, i) ==
    LET ls == pre[i][2]
        rs == pre[i][3]
        hl == IF ls > 0 THEN 1 + HeightAt(pre, i + 1) ELSE 0
        hr == IF rs > 0 THEN 1 + HeightAt(pre, i + 1 + ls) ELSE 0
    IN IF hl > hr THEN hl ELSE hr

\* edges as <<parent index, child index>>
EdgesOf(pre) ==
    {<<i, i + 1>> : i \in {j \in 1 .. Len(pre) : pre[j][2] > 0}} \cup
    {<<i, i + 1 + pre[i][2]>> : i \in {j \in 1 .. Len(pre) : pre[j][3] > 0}}

HeapOneDirection(pre) ==
    \/ \A e \in EdgesOf(pre) : pre[e[1]][1] <= pre[e[2]][1]
    \/ \A e \in EdgesOf(pre) : pre[e[1]][1] >= pre[e[2]][1]

Cmp(e, want) == ("panic" \in DOMAIN e \/ e.res # want) => Mismatch(l, e, [res |-> want])

\* the driver takes positions from the implementation's own size(): a position outside the sequence means that
\* size() was wrong at that moment
InDomain(e) ==
    CASE e.ev = "remove_at" -> e.pos < Len(seqs[e.a])
      [] e.ev \in {"insert_at", "split_at"} -> e.pos <= Len(seqs[e.a])
      [] e.ev \in {"first", "last"} -> seqs[e.a] # <<>>
      [] OTHER -> TRUE

Step(e) ==
    CASE ~InDomain(e) -> Mismatch(l, e, [size_of_sequence |-> Len(seqs[e.a])]) /\ AQuery
      [] e.ev = "reset" -> seqs' = [s \in Slots |-> <<>>]
      [] e.ev = "from_item" -> AFromItem(e.s, e.c)
      [] e.ev = "merge" -> AMerge(e.a, e.b)
      [] e.ev = "split_at" -> ASplitAt(e.a, e.b, e.pos)
      [] e.ev = "split_by" ->
            IF PrefixMonotone(seqs[e.a], LAMBDA c : c <= e.k) THEN ASplitBy(e.a, e.b, LAMBDA c : c <= e.k)
            ELSE Mismatch(l, e, "harness bug: predicate not prefix-monotone") /\ AQuery
      [] e.ev = "insert_at" -> AInsertAt(e.a, e.pos, e.c)
      [] e.ev = "remove_at" -> Cmp(e, RemoveResult(e.a, e.pos)) /\ ARemoveAt(e.a, e.pos)
      [] e.ev = "root_modify" -> ARootModify(e.a, e.m)
      [] e.ev = "first" -> Cmp(e, FirstResult(e.a)) /\ AQuery
      [] e.ev = "last" -> Cmp(e, LastResult(e.a)) /\ AQuery
      [] e.ev = "size" -> Cmp(e, SizeResult(e.a)) /\ AQuery
      [] e.ev = "is_empty" -> Cmp(e, seqs[e.a] = <<>>) /\ AQuery
      [] e.ev = "agg" -> Cmp(e, RootAggregate(e.a)) /\ AQuery
      [] e.ev = "collect" -> Cmp(e, CollectResult(e.a)) /\ AQuery
      [] e.ev = "shape" ->
            /\ (Len(e.pre) > 0 /\ ~HeapOneDirection(e.pre)) => Mismatch(l, e, "priorities not heap-ordered in one direction")
            /\ (Len(e.pre) > 0 /\ HeightAt(e.pre, 1) > HeightBound(Len(e.pre))) => Mismatch(l, e, [height_bound |-> HeightBound(Len(e.pre))])
            /\ AQuery
      [] e.ev = "ckpt" ->
            /\ (e.bad_min # 0 /\ e.bad_max # 0) => Mismatch(l, e, "priorities not heap-ordered in one direction")
            /\ (e.height > HeightBound(e.n)) => Mismatch(l, e, [height_bound |-> HeightBound(e.n)])
            /\ AQuery
      [] OTHER -> Mismatch(l, e, "unknown event") /\ AQuery

Next == l <= Len(Rec) /\ Step(Rec[l]) /\ l' = l + 1
Spec == Init /\ [][Next]_tvars

Accepted == TLCGet("stats").diameter = Len(Rec) + 1
            \/ PrintT("INCOMPLETE " \o ToString(TLCGet("stats").diameter) \o " of " \o ToString(Len(Rec) + 1))
=============================================================================
