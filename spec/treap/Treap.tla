------------------------------- MODULE Treap -------------------------------
(***************************************************************************)
(* (A) Abstract specification of rlib_treap::Treap: every live treap is a  *)
(* plain sequence.  seqs[s] is the sequence held in slot s (slots model    *)
(* the variables of a user program; merge and the splits consume their     *)
(* operands, as the Rust API does by move).                                *)
(*                                                                         *)
(* Elements are characters in Z_Q; the aggregate of a sequence is its      *)
(* order-sensitive polynomial hash and its length; lazy modifications are  *)
(* affine maps on characters, which do not commute (assign versus add) --  *)
(* the same algebra as SegAlg's "hashaff".                                 *)
(***************************************************************************)
EXTENDS Integers, Sequences, FiniteSets

Q == 5
X == 2

RECURSIVE XPow(_)
XPow(k) == IF k = 0 THEN 1 ELSE (X * XPow(k - 1)) % Q
RECURSIVE G(_)
G(len) == IF len = 0 THEN 0 ELSE (G(len - 1) * X + 1) % Q

RECURSIVE HashRec(_, _, _)
HashRec(s, i, acc) == IF i > Len(s) THEN acc ELSE HashRec(s, i + 1, (acc * X + s[i]) % Q)
\* polynomial hash of the sequence, first element most significant
HashOf(s) == HashRec(s, 1, 0)
\* aggregate of a sequence: <<hash, length>>
Agg(s) == <<HashOf(s), Len(s)>>

ApplyC(m, c) == (m[1] * c + m[2]) % Q
ApplySeq(m, s) == [i \in 1 .. Len(s) |-> ApplyC(m, s[i])]

CONSTANT Slots
VARIABLE seqs
avars == <<seqs>>

Empty(s) == seqs[s] = <<>>

AInit == seqs = [s \in Slots |-> <<>>]

AFromItem(s, c) == seqs' = [seqs EXCEPT ![s] = <<c>>]
AMerge(a, b)    == seqs' = [seqs EXCEPT ![a] = seqs[a] \o seqs[b], ![b] = <<>>]
ASplitAt(a, b, pos) ==
    seqs' = [seqs EXCEPT ![a] = SubSeq(seqs[a], 1, pos), ![b] = SubSeq(seqs[a], pos + 1, Len(seqs[a]))]

\* split by a predicate that holds on a prefix of the elements and fails on the rest
PrefixLen(s, Pd(_)) == Cardinality({i \in 1 .. Len(s) : Pd(s[i])})
PrefixMonotone(s, Pd(_)) == \A i \in 1 .. Len(s) - 1 : Pd(s[i + 1]) => Pd(s[i])
ASplitBy(a, b, Pd(_)) == ASplitAt(a, b, PrefixLen(seqs[a], Pd))

AInsertAt(a, pos, c) ==
    seqs' = [seqs EXCEPT ![a] = SubSeq(seqs[a], 1, pos) \o <<c>> \o SubSeq(seqs[a], pos + 1, Len(seqs[a]))]
RemoveResult(a, pos) == seqs[a][pos + 1]
ARemoveAt(a, pos) ==
    seqs' = [seqs EXCEPT ![a] = SubSeq(seqs[a], 1, pos) \o SubSeq(seqs[a], pos + 2, Len(seqs[a]))]

\* move: remove_at(from) and insert the returned item again at position `to` of the shortened sequence
AMove(a, from, to) ==
    LET x == seqs[a][from + 1]
        rest == SubSeq(seqs[a], 1, from) \o SubSeq(seqs[a], from + 2, Len(seqs[a]))
    IN seqs' = [seqs EXCEPT ![a] = SubSeq(rest, 1, to) \o <<x>> \o SubSeq(rest, to + 1, Len(rest))]

\* a modification attached to the root reaches exactly that treap's elements, once
ARootModify(a, m) == seqs' = [seqs EXCEPT ![a] = ApplySeq(m, seqs[a])]
AQuery == UNCHANGED seqs

FirstResult(a) == seqs[a][1]
LastResult(a)  == seqs[a][Len(seqs[a])]
CollectResult(a) == seqs[a]
SizeResult(a) == Len(seqs[a])
RootAggregate(a) == Agg(seqs[a])
=============================================================================
