------------------------------ MODULE TreapGen ------------------------------
(***************************************************************************)
(* MC + spec -> implementation for C03 (and the design part of C16): all   *)
(* histories of <= Depth operations over <= MaxElems elements in the given *)
(* slots, every priority assignment from Prios.  One replay case per       *)
(* distinct (B)-state: the history (with the priorities chosen and the     *)
(* values remove_at must return) and what every slot must contain.         *)
(***************************************************************************)
EXTENDS TreapImpl, TraceLib

CONSTANTS Depth, MaxElems, Chars

Mods == {<<1, 1>>, <<0, 2>>}        \* add 1, assign 2: they do not commute

VARIABLE hist
gvars == <<seqs, live, hist>>
View == <<seqs, live, Len(hist)>>

RECURSIVE SumLens(_)
SumLens(S) == IF S = {} THEN 0 ELSE LET s == CHOOSE x \in S : TRUE IN Len(seqs[s]) + SumLens(S \ {s})
Total == SumLens(Slots)

Op(name, a, b, x, y, r) == [op |-> name, a |-> a, b |-> b, x |-> x, y |-> y, r |-> r]
Go == Len(hist) < Depth

GInit == Init /\ hist = <<>>

DoFromItem == Go /\ Total < MaxElems /\ \E s \in Slots, c \in Chars, p \in Prios :
                  Empty(s) /\ FromItem(s, c, p) /\ hist' = Append(hist, Op("from_item", s, 0, c, p, 0))
DoMerge    == Go /\ \E a, b \in Slots : a # b /\ ~Empty(a) /\ ~Empty(b) /\ Merge(a, b)
                  /\ hist' = Append(hist, Op("merge", a, b, 0, 0, 0))
DoSplitAt  == Go /\ \E a, b \in Slots : a # b /\ ~Empty(a) /\ Empty(b) /\ \E pos \in 0 .. Len(seqs[a]) :
                  SplitAt(a, b, pos) /\ hist' = Append(hist, Op("split_at", a, b, pos, 0, 0))
DoSplitBy  == Go /\ \E a, b \in Slots : a # b /\ ~Empty(a) /\ Empty(b) /\ \E k \in Chars \cup {2, 4} :
                  /\ PrefixMonotone(seqs[a], LAMBDA c : c <= k)
                  /\ SplitBy(a, b, k)
                  /\ hist' = Append(hist, Op("split_by", a, b, k, 0, 0))
DoInsertAt == Go /\ Total < MaxElems /\ \E a \in Slots : ~Empty(a) /\ \E pos \in 0 .. Len(seqs[a]), c \in Chars, p \in Prios :
                  InsertAt(a, pos, c, p) /\ hist' = Append(hist, Op("insert_at", a, 0, pos, <<c, p>>, 0))
DoRemoveAt == Go /\ \E a \in Slots : ~Empty(a) /\ \E pos \in 0 .. Len(seqs[a]) - 1 :
                  RemoveAt(a, pos) /\ hist' = Append(hist, Op("remove_at", a, 0, pos, 0, RemoveResult(a, pos)))
DoMove     == Go /\ \E a \in Slots : Len(seqs[a]) >= 2 /\ \E from \in 0 .. Len(seqs[a]) - 1, to \in 0 .. Len(seqs[a]) - 1, p \in Prios :
                  Move(a, from, to, p) /\ hist' = Append(hist, Op("move", a, 0, from, <<to, p>>, 0))
DoRootModify == Go /\ \E a \in Slots, m \in Mods : ~Empty(a) /\ RootModify(a, m)
                  /\ hist' = Append(hist, Op("root_modify", a, 0, m, 0, 0))
DoFirst    == Go /\ \E a \in Slots : ~Empty(a) /\ First(a) /\ hist' = Append(hist, Op("first", a, 0, 0, 0, FirstResult(a)))
DoLast     == Go /\ \E a \in Slots : ~Empty(a) /\ Last(a) /\ hist' = Append(hist, Op("last", a, 0, 0, 0, LastResult(a)))
DoCollect  == Go /\ \E a \in Slots : ~Empty(a) /\ Collect(a) /\ hist' = Append(hist, Op("collect", a, 0, 0, 0, 0))

GNext == DoFromItem \/ DoMerge \/ DoSplitAt \/ DoSplitBy \/ DoInsertAt \/ DoRemoveAt \/ DoMove \/ DoRootModify
         \/ DoFirst \/ DoLast \/ DoCollect
GSpec == GInit /\ [][GNext]_gvars

SlotSeq == CHOOSE q \in [1 .. Cardinality(Slots) -> Slots] : \A i, j \in 1 .. Cardinality(Slots) : i # j => q[i] # q[j]

EmitState ==
    Emit([hist |-> hist,
          slots |-> [i \in 1 .. Len(SlotSeq) |-> [s |-> SlotSeq[i], seq |-> seqs[SlotSeq[i]], agg |-> Agg(seqs[SlotSeq[i]])]]])
=============================================================================
