SPECIFICATION GSpec
CONSTANT NIL = NIL
CONSTANT Slots = {1, 2}
CONSTANT Prios = {1, 2, 3}
CONSTANT Depth = 5
CONSTANT MaxElems = 3
CONSTANT Chars = {0, 1}
VIEW View
INVARIANT Refines
INVARIANT AggConsistent
INVARIANT HeapOrdered
INVARIANT EmitState
CHECK_DEADLOCK FALSE
