--------------------------- MODULE TreapStartsTrace ---------------------------
(***************************************************************************)
(* Implementation -> spec for C17, the moment per-thread priority          *)
(* generators come into being.  Event 1 (solo_streams): the first draws of *)
(* k threads that ran one after the other in a fresh process -- what the   *)
(* i-th thread to create a node observes when nothing interferes.  Event 2 *)
(* (start_streams): the first draws of k threads started in rounds of      *)
(* several threads released together.                                      *)
(* Lawful: every concurrent thread observed one of the sequential streams  *)
(* (PerThread design of module TreapRng), no node creation panicked, and   *)
(* -- when the sequential streams are pairwise different, i.e. the design  *)
(* seeds every thread differently -- no stream was handed out twice: two   *)
(* threads with the same stream have drawn every priority in duplicate.    *)
(* (A shared generator is outside this stage: the long rounds of           *)
(* TreapRaceTrace judge that design.)                                      *)
(***************************************************************************)
EXTENDS TraceLib, FiniteSets

VARIABLE l
Init == l = 1

SetOf(sq) == {sq[i] : i \in 1 .. Len(sq)}

Judge ==
    LET refs == Rec[1].streams
        thr == Rec[2].streams
        RS == SetOf(refs)
        TS == SetOf(thr)
        foreign == TS \ RS
        seeded_apart == Cardinality(RS) = Len(refs)
    IN /\ (Rec[1].panics # <<>> \/ Rec[2].panics # <<>>) =>
              Mismatch(2, [ev |-> "result", panics |-> Rec[1].panics \o Rec[2].panics], "node creation panicked on a thread")
       /\ (foreign # {}) =>
              Mismatch(2, [ev |-> "streams", foreign |-> Cardinality(foreign)], "a thread observed a stream that no thread observes when run alone")
       /\ (seeded_apart /\ Cardinality(TS) # Len(thr)) =>
              Mismatch(2, [ev |-> "streams", threads |-> Len(thr), distinct_streams |-> Cardinality(TS)],
                       "the same stream was handed to more than one thread: every priority of those threads was drawn in duplicate")
       /\ Note("streams judged")

Next == l <= Len(Rec) /\ (l = 2 => Judge) /\ l' = l + 1
Spec == Init /\ [][Next]_l
Accepted == (TLCGet("stats").diameter = 3 /\ Len(Rec) = 2 /\ Rec[1].ev = "solo_streams" /\ Rec[2].ev = "start_streams")
            \/ PrintT("INCOMPLETE " \o ToString(TLCGet("stats").diameter) \o " of 3")
=============================================================================
