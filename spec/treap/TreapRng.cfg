SPECIFICATION Spec
CONSTANT Threads = {1, 2, 3}
CONSTANT Draws = 3
CONSTANT Design = "PerThread"
INVARIANT RaceFree
CHECK_DEADLOCK FALSE
