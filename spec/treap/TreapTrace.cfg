SPECIFICATION Spec
CONSTANT Slots = {0, 1, 2, 3, 4, 5, 6, 7}
POSTCONDITION Accepted
CHECK_DEADLOCK FALSE
