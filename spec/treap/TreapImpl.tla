----------------------------- MODULE TreapImpl -----------------------------
(***************************************************************************)
(* (B) Implementation-shaped model of rlib_treap (treap.rs, treap_node.rs) *)
(* in lockstep with (A).  A node is a record                               *)
(*   [c, h, len, pa, pb, prio, left, right]                                *)
(* c = the element, <<h, len>> = aggregate of the subtree (with this       *)
(* node's own pending modification already applied to c and h, but not yet *)
(* to the children), <<pa, pb>> = pending affine map for the children,     *)
(* prio = heap priority.  NIL is the empty tree.  Priorities are a         *)
(* nondeterministic choice at node creation (ties included): "for every    *)
(* assignment of priorities".                                              *)
(***************************************************************************)
EXTENDS Treap, TLC

CONSTANTS NIL, Prios

VARIABLE live
vars == <<seqs, live>>

Sz(t) == IF t = NIL THEN 0 ELSE t.len
Hh(t) == IF t = NIL THEN 0 ELSE t.h

Leaf(c, p) == [c |-> c, h |-> c % Q, len |-> 1, pa |-> 1, pb |-> 0, prio |-> p, left |-> NIL, right |-> NIL]

\* TreapItem::update of the harness item: aggregate = left ++ <<c>> ++ right
Upd(t) ==
    [t EXCEPT !.len = Sz(t.left) + 1 + Sz(t.right),
              !.h = (((Hh(t.left) * X + t.c) % Q) * XPow(Sz(t.right)) + Hh(t.right)) % Q]

\* lazily modify a whole subtree through its root item
ApplyN(t, m) ==
    IF t = NIL THEN NIL
    ELSE [t EXCEPT !.c = (m[1] * t.c + m[2]) % Q,
                   !.h = (m[1] * t.h + m[2] * G(t.len)) % Q,
                   !.pa = (m[1] * t.pa) % Q,
                   !.pb = (m[1] * t.pb + m[2]) % Q]

\* TreapNode::push -> TreapItem::push: hand the pending map to both children's items
PushN(t) ==
    [t EXCEPT !.left = ApplyN(t.left, <<t.pa, t.pb>>), !.right = ApplyN(t.right, <<t.pa, t.pb>>), !.pa = 1, !.pb = 0]

RECURSIVE MergeN(_, _)
MergeN(l, r) ==
    IF l = NIL THEN r
    ELSE IF r = NIL THEN l
    ELSE IF l.prio < r.prio
         THEN LET l1 == PushN(l) IN Upd([l1 EXCEPT !.right = MergeN(l1.right, r)])
         ELSE LET r1 == PushN(r) IN Upd([r1 EXCEPT !.left = MergeN(l, r1.left)])

RECURSIVE SplitAtN(_, _)
\* returns <<left part, right part>>
SplitAtN(root, pos) ==
    IF root = NIL THEN <<NIL, NIL>>
    ELSE LET t == PushN(root)
         IN IF pos > Sz(t.left)
            THEN LET ab == SplitAtN(t.right, pos - Sz(t.left) - 1)
                 IN <<Upd([t EXCEPT !.right = ab[1]]), ab[2]>>
            ELSE LET ab == SplitAtN(t.left, pos)
                 IN <<ab[1], Upd([t EXCEPT !.left = ab[2]])>>

RECURSIVE SplitByN(_, _)
\* the predicate looks at the element: c <= k  (RECURSIVE operators cannot take operator arguments)
SplitByN(root, k) ==
    IF root = NIL THEN <<NIL, NIL>>
    ELSE LET t == PushN(root)
         IN IF t.c <= k
            THEN LET ab == SplitByN(t.right, k) IN <<Upd([t EXCEPT !.right = ab[1]]), ab[2]>>
            ELSE LET ab == SplitByN(t.left, k) IN <<ab[1], Upd([t EXCEPT !.left = ab[2]])>>

\* Treap::first / last: push along the spine, return the end node's element; result <<tree, elem>>
RECURSIVE FirstN(_)
FirstN(t) == IF t.left = NIL THEN <<t, t.c>>
             ELSE LET t1 == PushN(t) f == FirstN(t1.left) IN <<[t1 EXCEPT !.left = f[1]], f[2]>>
RECURSIVE LastN(_)
LastN(t) == IF t.right = NIL THEN <<t, t.c>>
            ELSE LET t1 == PushN(t) f == LastN(t1.right) IN <<[t1 EXCEPT !.right = f[1]], f[2]>>

\* collect_into: push everywhere; result <<tree, elements in order>>
RECURSIVE CollectN(_)
CollectN(t) ==
    IF t = NIL THEN <<NIL, <<>>>>
    ELSE LET t1 == PushN(t)
             a == CollectN(t1.left)
             b == CollectN(t1.right)
         IN <<[t1 EXCEPT !.left = a[1], !.right = b[1]], a[2] \o <<t1.c>> \o b[2]>>

\* remove_at: split_at(pos), split_at(1), merge(t1, t3); result <<tree, removed element, the item handed back>>
RemoveN(t, pos) ==
    LET s1 == SplitAtN(t, pos)
        s2 == SplitAtN(s1[2], 1)
    IN <<MergeN(s1[1], s2[2]), s2[1].c, s2[1]>>

\* the item remove_at hands back is a clean singleton: aggregate of exactly that one element, nothing pending
\* (so that it can be inserted again: a leaf is never update()d)
CleanSingleton(nd) == nd.h = nd.c % Q /\ nd.len = 1 /\ nd.pa = 1 /\ nd.pb = 0

\* insert_at: split_at(pos), merge(merge(left, new node), right)
InsertN(t, pos, c, p) ==
    LET s1 == SplitAtN(t, pos) IN MergeN(MergeN(s1[1], Leaf(c, p)), s1[2])

(* ---- lockstep actions ------------------------------------------------------ *)
Init == AInit /\ live = [s \in Slots |-> NIL]

FromItem(s, c, p) == AFromItem(s, c) /\ live' = [live EXCEPT ![s] = Leaf(c, p)]
Merge(a, b) == AMerge(a, b) /\ live' = [live EXCEPT ![a] = MergeN(live[a], live[b]), ![b] = NIL]
SplitAt(a, b, pos) ==
    /\ ASplitAt(a, b, pos)
    /\ LET ab == SplitAtN(live[a], pos) IN live' = [live EXCEPT ![a] = ab[1], ![b] = ab[2]]
SplitBy(a, b, k) ==
    /\ ASplitBy(a, b, LAMBDA c : c <= k)
    /\ LET ab == SplitByN(live[a], k) IN live' = [live EXCEPT ![a] = ab[1], ![b] = ab[2]]
InsertAt(a, pos, c, p) == AInsertAt(a, pos, c) /\ live' = [live EXCEPT ![a] = InsertN(live[a], pos, c, p)]
RemoveAt(a, pos) == ARemoveAt(a, pos) /\ live' = [live EXCEPT ![a] = RemoveN(live[a], pos)[1]]
\* the removed node's item goes into a NEW node (fresh priority p) and is inserted as insert_at does
Move(a, from, to, p) ==
    /\ AMove(a, from, to)
    /\ LET r == RemoveN(live[a], from)
           nd == [r[3] EXCEPT !.prio = p, !.left = NIL, !.right = NIL]
           s1 == SplitAtN(r[1], to)
       IN live' = [live EXCEPT ![a] = MergeN(MergeN(s1[1], nd), s1[2])]
RootModify(a, m) == ARootModify(a, m) /\ live' = [live EXCEPT ![a] = ApplyN(live[a], m)]
First(a)   == AQuery /\ live' = [live EXCEPT ![a] = FirstN(live[a])[1]]
Last(a)    == AQuery /\ live' = [live EXCEPT ![a] = LastN(live[a])[1]]
Collect(a) == AQuery /\ live' = [live EXCEPT ![a] = CollectN(live[a])[1]]

(* ---- invariants ---------------------------------------------------------------- *)
\* C03: the tree is the sequence; every query answers as the sequence would
Refines ==
    \A s \in Slots :
        /\ CollectN(live[s])[2] = seqs[s]
        /\ Sz(live[s]) = Len(seqs[s])
        /\ (live[s] # NIL =>
              /\ FirstN(live[s])[2] = FirstResult(s)
              /\ LastN(live[s])[2] = LastResult(s)
              /\ <<live[s].h, live[s].len>> = RootAggregate(s)
              /\ \A pos \in 0 .. Len(seqs[s]) - 1 : RemoveN(live[s], pos)[2] = RemoveResult(s, pos) /\ CleanSingleton(RemoveN(live[s], pos)[3]))

\* the aggregate kept at any subtree root equals the fold of exactly that subsequence
RECURSIVE AggOK(_)
AggOK(t) ==
    t = NIL \/ (/\ <<t.h, t.len>> = Agg(CollectN(t)[2])
                /\ LET t1 == PushN(t) IN AggOK(t1.left) /\ AggOK(t1.right))
AggConsistent == \A s \in Slots : AggOK(live[s])

\* C16 (design level): priorities are heap-ordered along every edge, smaller on top
RECURSIVE HeapOK(_)
HeapOK(t) ==
    t = NIL \/ (/\ (t.left # NIL => t.prio <= t.left.prio)
                /\ (t.right # NIL => t.prio <= t.right.prio)
                /\ HeapOK(t.left) /\ HeapOK(t.right))
HeapOrdered == \A s \in Slots : HeapOK(live[s])
=============================================================================
