------------------------------ MODULE TreapRng ------------------------------
(***************************************************************************)
(* C17 at the design level: the process-wide priority generator of         *)
(* rlib_treap used from several threads.  The stream of a generator seeded *)
(* with 42 is abstracted to its indices 1, 2, 3, ... (the LCG has full     *)
(* period, so index <-> value is a bijection).                             *)
(*                                                                         *)
(* Three designs:                                                          *)
(*   "PerThread"     every thread owns a generator seeded 42 (the repaired *)
(*                   code: thread_local!)                                  *)
(*   "SharedAtomic"  one generator, each draw is one atomic step (a mutex, *)
(*                   or a CAS loop) -- equally lawful                      *)
(*   "Racy"          one generator, a draw is read-state / write-state as  *)
(*                   two steps: what an unsynchronised `static mut`        *)
(*                   amounts to (the pinned commit); kept as a negative    *)
(*                   test that TLC must reject                             *)
(***************************************************************************)
EXTENDS Integers, Sequences, FiniteSets

CONSTANTS Threads, Draws, Design

VARIABLES shared, own, tmp, pc, drawn
vars == <<shared, own, tmp, pc, drawn>>

Init ==
    /\ shared = 0
    /\ own = [t \in Threads |-> 0]
    /\ tmp = [t \in Threads |-> 0]
    /\ pc = [t \in Threads |-> "idle"]
    /\ drawn = [t \in Threads |-> <<>>]

More(t) == Len(drawn[t]) < Draws

\* PerThread: next index of the thread's own generator
DrawOwn(t) ==
    /\ Design = "PerThread" /\ More(t)
    /\ own' = [own EXCEPT ![t] = own[t] + 1]
    /\ drawn' = [drawn EXCEPT ![t] = Append(drawn[t], own[t] + 1)]
    /\ UNCHANGED <<shared, tmp, pc>>

\* SharedAtomic: read-modify-write in one step
DrawAtomic(t) ==
    /\ Design = "SharedAtomic" /\ More(t)
    /\ shared' = shared + 1
    /\ drawn' = [drawn EXCEPT ![t] = Append(drawn[t], shared + 1)]
    /\ UNCHANGED <<own, tmp, pc>>

\* Racy: `RNG.state = RNG.state * A + C; RNG.state` without synchronisation
RacyRead(t) ==
    /\ Design = "Racy" /\ More(t) /\ pc[t] = "idle"
    /\ tmp' = [tmp EXCEPT ![t] = shared]
    /\ pc' = [pc EXCEPT ![t] = "write"]
    /\ UNCHANGED <<shared, own, drawn>>
RacyWrite(t) ==
    /\ Design = "Racy" /\ pc[t] = "write"
    /\ shared' = tmp[t] + 1
    /\ drawn' = [drawn EXCEPT ![t] = Append(drawn[t], tmp[t] + 1)]
    /\ pc' = [pc EXCEPT ![t] = "idle"]
    /\ UNCHANGED <<own, tmp>>

DoDrawOwn    == \E t \in Threads : DrawOwn(t)
DoDrawAtomic == \E t \in Threads : DrawAtomic(t)
DoRacyRead   == \E t \in Threads : RacyRead(t)
DoRacyWrite  == \E t \in Threads : RacyWrite(t)
Next == DoDrawOwn \/ DoDrawAtomic \/ DoRacyRead \/ DoRacyWrite
Spec == Init /\ [][Next]_vars

Indices(t) == {drawn[t][i] : i \in 1 .. Len(drawn[t])}
Total == LET RECURSIVE S(_)
             S(T) == IF T = {} THEN 0 ELSE LET t == CHOOSE x \in T : TRUE IN Len(drawn[t]) + S(T \ {t})
         IN S(Threads)

\* every thread sees a stream some sequential execution could have produced
Increasing(t) == \A i \in 1 .. Len(drawn[t]) - 1 : drawn[t][i] < drawn[t][i + 1]
\* shared designs: no index handed out twice, none skipped
NoDuplicateIndex == \A s, t \in Threads : s # t => Indices(s) \cap Indices(t) = {}
NoLostIndex == UNION {Indices(t) : t \in Threads} = 1 .. Total
\* per-thread design: every thread's stream is the prefix of the seed-42 stream
Seed42Prefix == \A t \in Threads : drawn[t] = [i \in 1 .. Len(drawn[t]) |-> i]

RaceFree ==
    /\ \A t \in Threads : Increasing(t)
    /\ IF Design = "PerThread" THEN Seed42Prefix
       ELSE (\A t \in Threads : pc[t] = "idle") => (NoDuplicateIndex /\ NoLostIndex)
=============================================================================
