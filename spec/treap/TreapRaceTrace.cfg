SPECIFICATION Spec
CONSTANT Design = "PerThread"
CHECK_DEADLOCK FALSE
