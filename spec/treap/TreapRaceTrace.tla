--------------------------- MODULE TreapRaceTrace ---------------------------
(***************************************************************************)
(* Implementation -> spec for C17.  Several threads, started together,     *)
(* each create treap nodes (safe constructor) and operate on a treap of    *)
(* their own; every thread records the priority of every node it created,  *)
(* in creation order.  The reference stream is recorded from the same code *)
(* run single-threaded in a fresh process (sequential semantics are not in *)
(* question): stream idx is what the (idx+1)-th thread that ever creates a *)
(* node observes when nothing runs concurrently (per-thread generators may *)
(* be seeded per thread).  Priorities are <<high 16 bits, low 16 bits>>.   *)
(*                                                                         *)
(*   solo{idx,prios}    reference stream idx (chunked, in order)           *)
(*   thread{t,prios}    stream observed by thread t (chunked, in order)    *)
(*   result{t,got,solo} observables of thread t's treap and of the same    *)
(*                      operations run alone                               *)
(*                                                                         *)
(* Accepted iff every thread's treap results equal the solo results and    *)
(* the streams are explained by one of the two lawful designs of module    *)
(* TreapRng:  PerThread (each stream is a prefix of one of the reference   *)
(* streams) or                                                             *)
(* SharedAtomic (the threads' draws partition a prefix of reference 0,     *)
(* stream, each thread's part in order: decided by walking the reference   *)
(* -- the next reference value must be the next pending draw of some       *)
(* thread).  The design to test is a constant; the runner accepts if       *)
(* either instance accepts.                                                *)
(***************************************************************************)
EXTENDS TraceLib, FiniteSets

CONSTANT Design

RECURSIVE Cat(_, _, _)
\* concatenation of the prios of all events satisfying Sel, in trace order
Cat(i, Sel(_), acc) == IF i > Len(Rec) THEN acc ELSE Cat(i + 1, Sel, IF Sel(Rec[i]) THEN acc \o Rec[i].prios ELSE acc)

RefIdx == {Rec[i].idx : i \in {j \in 1 .. Len(Rec) : Rec[j].ev = "solo"}}
RefOf(x) == Cat(1, LAMBDA e : e.ev = "solo" /\ e.idx = x, <<>>)
Refs == [x \in RefIdx |-> RefOf(x)]
Ref == Refs[0]
ThreadIds == {Rec[i].t : i \in {j \in 1 .. Len(Rec) : Rec[j].ev = "thread"}}
StreamOf(t) == Cat(1, LAMBDA e : e.ev = "thread" /\ e.t = t, <<>>)
Streams == [t \in ThreadIds |-> StreamOf(t)]
TotalDraws == LET RECURSIVE S(_)
                  S(T) == IF T = {} THEN 0 ELSE LET t == CHOOSE x \in T : TRUE IN Len(Streams[t]) + S(T \ {t})
              IN S(ThreadIds)

PrefixOf(s, r) == Len(s) <= Len(r) /\ s = SubSeq(r, 1, Len(s))
Cand(t) == {x \in RefIdx : PrefixOf(Streams[t], Refs[x])}
CandOf == [t \in ThreadIds |-> Cand(t)]
\* every thread is explained by a reference stream, and no two threads can only be explained by the very same one
\* (a stream handed out twice is a duplicated draw; with generators that are seeded alike by design all candidate
\* sets are the whole index set and the clause is void)
PerThreadOK(t) == CandOf[t] # {} /\ (Cardinality(CandOf[t]) = 1 => \A u \in ThreadIds \ {t} : CandOf[u] # CandOf[t])
\* where the stream leaves the reference it starts like (reference 0 if it starts like none)
FirstBad(t) ==
    LET s == Streams[t]
        C == {x \in RefIdx : Len(s) > 0 /\ Len(Refs[x]) > 0 /\ Refs[x][1] = s[1]}
        r == IF C = {} THEN Ref ELSE Refs[CHOOSE x \in C : TRUE]
        B == {i \in 1 .. Len(s) : i > Len(r) \/ s[i] # r[i]}
    IN IF B = {} THEN 0 ELSE CHOOSE i \in B : \A j \in B : i <= j

\* l: line being consumed; k: reference values matched so far; cur[t]: draws of t matched so far
VARIABLES l, k, cur, phase
tvars == <<l, k, cur, phase>>

Init == l = 1 /\ k = 0 /\ cur = [t \in ThreadIds |-> 0] /\ phase = "lines"

Step(e) ==
    CASE e.ev = "result" -> (e.got # e.solo) => Mismatch(l, [ev |-> "result", t |-> e.t], "treap results differ from the same operations run alone")
      [] e.ev = "solo" /\ "panic" \in DOMAIN e -> Mismatch(l, [ev |-> "result", t |-> e.idx, panic |-> e.panic], "node creation panicked on a thread that ran alone")
      [] OTHER -> TRUE

Lines ==
    /\ phase = "lines" /\ l <= Len(Rec)
    /\ Step(Rec[l])
    /\ l' = l + 1
    /\ phase' = IF l = Len(Rec) THEN "streams" ELSE "lines"
    /\ UNCHANGED <<k, cur>>

JudgePerThread ==
    /\ phase = "streams" /\ Design = "PerThread"
    \* (an implication, not a disjunction: TLC explores both branches of a disjunction inside an action)
    /\ \A t \in ThreadIds : (~PerThreadOK(t)) =>
           Mismatch(0, [ev |-> "streams", design |-> Design, thread |-> t, first_deviation_at_draw |-> FirstBad(t),
                        draws |-> Len(Streams[t])], "stream of the thread is not a prefix of any sequential stream, or two threads were handed the same stream")
    /\ Note("streams judged")
    /\ phase' = "done" /\ UNCHANGED <<l, k, cur>>

RECURSIVE WalkN(_, _, _)
\* match up to n further reference values; returns [k, cur, stuck]
WalkN(kk, cc, n) ==
    IF n = 0 \/ kk >= TotalDraws \/ kk >= Len(Ref) THEN [k |-> kk, cur |-> cc, stuck |-> FALSE]
    ELSE LET v == Ref[kk + 1]
             C == {t \in ThreadIds : cc[t] < Len(Streams[t]) /\ Streams[t][cc[t] + 1] = v}
         IN IF C = {} THEN [k |-> kk, cur |-> cc, stuck |-> TRUE]
            ELSE LET t == CHOOSE x \in C : TRUE IN WalkN(kk + 1, [cc EXCEPT ![t] = cc[t] + 1], n - 1)

Walk ==
    /\ phase = "streams" /\ Design = "SharedAtomic"
    /\ LET w == WalkN(k, cur, 400)
           finished == w.k >= TotalDraws
       IN /\ k' = w.k /\ cur' = w.cur
          /\ IF w.stuck \/ (w.k >= Len(Ref) /\ ~finished)
             THEN /\ Mismatch(0, [ev |-> "streams", design |-> Design, draws |-> TotalDraws, matched |-> w.k, cursors |-> w.cur],
                              "draws do not partition a prefix of the sequential stream: the next sequential value is nobody's next draw (duplicated, lost or foreign value)")
                  /\ Note("streams judged")
                  /\ phase' = "done"
             ELSE IF finished THEN Note("streams judged") /\ phase' = "done"
             ELSE phase' = "streams"
    /\ l' = l

Next == Lines \/ JudgePerThread \/ Walk
Spec == Init /\ [][Next]_tvars
Accepted == TRUE
=============================================================================
