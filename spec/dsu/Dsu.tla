------------------------------- MODULE Dsu -------------------------------
(***************************************************************************)
(* (A) Abstract specification of rlib_dsu::DSU: a partition of 0..n-1.     *)
(*                                                                         *)
(* comp[v] is the canonical label of v's component (its least member), so  *)
(* the abstract state of two histories is equal iff they induce the same   *)
(* partition.  rep[c] records the representative the implementation has    *)
(* shown for the component labelled c since the last union (NoRep if it    *)
(* has not shown one): the property lets the implementation pick any       *)
(* member, but then requires it to stay put until the next union.          *)
(***************************************************************************)
EXTENDS Naturals, FiniteSets, Sequences

CONSTANT NoRep            \* a value outside Nat

VARIABLES n, comp, rep
avars == <<n, comp, rep>>

Elems == 0 .. (n - 1)

Members(c) == {w \in Elems : comp[w] = c}

FreshComp(k) == [v \in 0 .. (k - 1) |-> v]
FreshRep(k)  == [v \in 0 .. (k - 1) |-> NoRep]

ATypeOK ==
    /\ n \in Nat
    /\ DOMAIN comp = Elems
    /\ \A v \in Elems : comp[v] \in Elems /\ comp[v] <= v /\ comp[comp[v]] = comp[v]
    /\ DOMAIN rep = Elems
    /\ \A c \in Elems : rep[c] # NoRep => (comp[c] = c /\ rep[c] \in Members(c))

AInit(k) == n = k /\ comp = FreshComp(k) /\ rep = FreshRep(k)

\* new(k) and reset(k) both produce the discrete partition on 0..k-1
AReset(k) == n' = k /\ comp' = FreshComp(k) /\ rep' = FreshRep(k)

\* result of un(u, v)
UnResult(u, v) == comp[u] # comp[v]

\* A union invalidates every recorded representative (most liberal reading of
\* "unchanged until the next union"; a call that joins nothing counts too).
AUn(u, v) ==
    /\ n' = n
    /\ LET cu == comp[u]
           cv == comp[v]
           lo == IF cu < cv THEN cu ELSE cv
       IN comp' = [w \in Elems |-> IF comp[w] = cu \/ comp[w] = cv THEN lo ELSE comp[w]]
    /\ rep' = FreshRep(n)

CheckResult(u, v) == comp[u] = comp[v]
SizeResult(v) == Cardinality(Members(comp[v]))

\* par(v) may answer r iff r is a member of v's component and agrees with what
\* was shown for that component since the last union.
ParAllowed(v, r) ==
    /\ r \in Members(comp[v])
    /\ rep[comp[v]] # NoRep => rep[comp[v]] = r

APar(v, r) ==
    /\ ParAllowed(v, r)
    /\ rep' = [rep EXCEPT ![comp[v]] = r]
    /\ UNCHANGED <<n, comp>>

\* check and size do not reveal a representative; clone copies the object.
AStutter == UNCHANGED avars

\* The listed property, phrased on (A): connectivity is the reflexive,
\* symmetric, transitive closure of the unions since the last reset.  comp is
\* maintained as exactly that closure; this invariant states it is a partition
\* labelling (checked in MC), the rest is by construction of AUn.
PartitionOK == \A u, v \in Elems : (comp[u] = comp[v]) <=> (u \in Members(comp[v]))
=============================================================================
