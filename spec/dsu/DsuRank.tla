------------------------------ MODULE DsuRank ------------------------------
(***************************************************************************)
(* Unbounded (all n, all histories) proof of the design-level invariant    *)
(* behind the log-depth clause of C05, checked by TLAPS.                   *)
(*                                                                         *)
(* State: the parent forest p and the size array sz of rlib_dsu::DSU,      *)
(* plus a ghost weight pw (a power of two attached to every node; never    *)
(* read by the algorithm).  Steps:                                         *)
(*   Link(a, b)    the tail of `un`: two distinct roots, sz[a] <= sz[b],   *)
(*                 a is hung below b and sz[b] grows by sz[a]              *)
(*   Compress(x)   one pointer update of `par`: p[x] := p[p[x]].  The      *)
(*                 recursive find with full compression is a sequence of   *)
(*                 such updates, applied from the root end of the path     *)
(*                 towards x (each node's parent is already the root when  *)
(*                 its child is redirected)                                *)
(*   Reset         back to singletons                                      *)
(* Invariant: the ghost weight at least doubles along every parent edge,   *)
(* and a root's weight is at most its size.  Hence a node d edges below    *)
(* its root r has 2^d * pw[x] <= pw[r] <= sz[r], i.e. d <= log2(sz[r]):    *)
(* the forest is never deeper than log2 of the size kept at the root.      *)
(* (That sz[r] is the component's cardinality is part of the refinement    *)
(* checked by TLC in MC_Dsu.)                                              *)
(***************************************************************************)
EXTENDS Naturals, TLAPS

CONSTANT N
ASSUME NAssump == N \in Nat
Nodes == 0 .. (N - 1)

VARIABLES p, sz, pw
vars == <<p, sz, pw>>

TypeOK == /\ p \in [Nodes -> Nodes]
          /\ sz \in [Nodes -> Nat]
          /\ pw \in [Nodes -> Nat]

IsRoot(x) == p[x] = x

Init == /\ p = [x \in Nodes |-> x]
        /\ sz = [x \in Nodes |-> 1]
        /\ pw = [x \in Nodes |-> 1]

Max(a, b) == IF a >= b THEN a ELSE b

Link(a, b) ==
    /\ a \in Nodes /\ b \in Nodes /\ a # b
    /\ IsRoot(a) /\ IsRoot(b)
    /\ sz[a] <= sz[b]
    /\ p' = [p EXCEPT ![a] = b]
    /\ sz' = [sz EXCEPT ![b] = sz[b] + sz[a]]
    /\ pw' = [pw EXCEPT ![b] = Max(pw[b], 2 * pw[a])]

Compress(x) ==
    /\ x \in Nodes
    /\ p' = [p EXCEPT ![x] = p[p[x]]]
    /\ UNCHANGED <<sz, pw>>

Reset ==
    /\ p' = [x \in Nodes |-> x]
    /\ sz' = [x \in Nodes |-> 1]
    /\ pw' = [x \in Nodes |-> 1]

Next == (\E a, b \in Nodes : Link(a, b)) \/ (\E x \in Nodes : Compress(x)) \/ Reset

Spec == Init /\ [][Next]_vars

Doubling == \A x \in Nodes : ~IsRoot(x) => 2 * pw[x] <= pw[p[x]]
RootWeight == \A x \in Nodes : IsRoot(x) => pw[x] <= sz[x]
Positive == \A x \in Nodes : pw[x] >= 1

Inv == TypeOK /\ Doubling /\ RootWeight /\ Positive

THEOREM InitInv == Init => Inv
  BY NAssump DEF Init, Inv, TypeOK, Doubling, RootWeight, Positive, IsRoot, Nodes

THEOREM StepInv == Inv /\ [Next]_vars => Inv'
<1> SUFFICES ASSUME Inv, [Next]_vars PROVE Inv'
  OBVIOUS
<1>1. CASE UNCHANGED vars
  BY <1>1 DEF Inv, TypeOK, Doubling, RootWeight, Positive, IsRoot, vars
<1>2. CASE Reset
  BY <1>2, NAssump DEF Reset, Inv, TypeOK, Doubling, RootWeight, Positive, IsRoot, Nodes
<1>3. ASSUME NEW x \in Nodes, Compress(x) PROVE Inv'
  <2>1. TypeOK'
    BY <1>3 DEF Compress, Inv, TypeOK
  <2>2. Positive'
    BY <1>3 DEF Compress, Inv, Positive
  <2>3. RootWeight'
    <3> SUFFICES ASSUME NEW y \in Nodes, IsRoot(y)' PROVE pw'[y] <= sz'[y]
      BY DEF RootWeight
    <3>0. p' = [p EXCEPT ![x] = p[p[x]]] /\ sz' = sz /\ pw' = pw
      BY <1>3 DEF Compress
    <3>1. CASE y # x
      BY <3>1, <3>0 DEF Inv, TypeOK, RootWeight, IsRoot
    <3>2. CASE y = x
      <4>1. p[x] \in Nodes /\ p[p[x]] = x
        BY <3>2, <3>0 DEF Inv, TypeOK, IsRoot
      <4>2. IsRoot(x)
        <5> SUFFICES ASSUME ~IsRoot(x) PROVE FALSE
          OBVIOUS
        <5>1. 2 * pw[x] <= pw[p[x]]
          BY DEF Inv, Doubling
        <5>2. ~IsRoot(p[x])
          BY <4>1 DEF IsRoot
        <5>3. 2 * pw[p[x]] <= pw[x]
          BY <5>2, <4>1 DEF Inv, Doubling
        <5>4. pw[x] \in Nat /\ pw[p[x]] \in Nat /\ pw[x] >= 1
          BY <4>1 DEF Inv, TypeOK, Positive
        <5> QED BY <5>1, <5>3, <5>4
      <4> QED BY <4>2, <3>2, <3>0 DEF Inv, RootWeight
    <3> QED BY <3>1, <3>2
  <2>4. Doubling'
    <3> SUFFICES ASSUME NEW y \in Nodes, ~IsRoot(y)' PROVE 2 * pw'[y] <= pw'[p'[y]]
      BY DEF Doubling
    <3>1. CASE y # x
      BY <3>1, <1>3 DEF Compress, Inv, TypeOK, Doubling, IsRoot
    <3>2. CASE y = x
      <4>1. p'[x] = p[p[x]] /\ pw' = pw
        BY <1>3 DEF Compress, Inv, TypeOK
      <4>2. p[x] \in Nodes /\ p[p[x]] \in Nodes
        BY DEF Inv, TypeOK
      <4>3. ~IsRoot(x)
        BY <3>2, <4>1, <4>2 DEF IsRoot, Inv, TypeOK
      <4>4. 2 * pw[x] <= pw[p[x]]
        BY <4>3 DEF Inv, Doubling
      <4>5. pw[p[x]] <= pw[p[p[x]]]
        <5>1. CASE IsRoot(p[x])
          <6>1. p[p[x]] = p[x]
            BY <5>1 DEF IsRoot
          <6>2. pw[p[x]] \in Nat
            BY <4>2 DEF Inv, TypeOK
          <6> QED BY <6>1, <6>2
        <5>2. CASE ~IsRoot(p[x])
          BY <5>2, <4>2 DEF Inv, Doubling, TypeOK
        <5> QED BY <5>1, <5>2
      <4> QED BY <3>2, <4>1, <4>2, <4>4, <4>5 DEF Inv, TypeOK
    <3> QED BY <3>1, <3>2
  <2> QED BY <2>1, <2>2, <2>3, <2>4 DEF Inv
<1>4. ASSUME NEW a \in Nodes, NEW b \in Nodes, Link(a, b) PROVE Inv'
  <2>0. /\ a # b /\ IsRoot(a) /\ IsRoot(b) /\ sz[a] <= sz[b]
        /\ p' = [p EXCEPT ![a] = b]
        /\ sz' = [sz EXCEPT ![b] = sz[b] + sz[a]]
        /\ pw' = [pw EXCEPT ![b] = Max(pw[b], 2 * pw[a])]
    BY <1>4 DEF Link
  <2>1. TypeOK'
    BY <2>0 DEF Inv, TypeOK, Max
  <2>2. Positive'
    BY <2>0 DEF Inv, TypeOK, Positive, Max
  <2>3. RootWeight'
    <3> SUFFICES ASSUME NEW y \in Nodes, IsRoot(y)' PROVE pw'[y] <= sz'[y]
      BY DEF RootWeight
    <3>1. CASE y = b
      <4>1. pw[a] <= sz[a] /\ pw[b] <= sz[b]
        BY <2>0 DEF Inv, RootWeight
      <4>2. sz'[b] = sz[b] + sz[a] /\ pw'[b] = Max(pw[b], 2 * pw[a])
        BY <2>0 DEF Inv, TypeOK
      <4> QED BY <3>1, <4>1, <4>2, <2>0 DEF Inv, TypeOK, Max
    <3>2. CASE y # b
      <4>1. y # a
        BY <2>0 DEF IsRoot, Inv, TypeOK
      <4> QED BY <3>2, <4>1, <2>0 DEF Inv, TypeOK, RootWeight, IsRoot
    <3> QED BY <3>1, <3>2
  <2>4. Doubling'
    <3> SUFFICES ASSUME NEW y \in Nodes, ~IsRoot(y)' PROVE 2 * pw'[y] <= pw'[p'[y]]
      BY DEF Doubling
    <3>1. CASE y = a
      BY <3>1, <2>0 DEF Inv, TypeOK, Max
    <3>2. CASE y # a
      <4>1. p'[y] = p[y] /\ ~IsRoot(y) /\ y # b
        BY <3>2, <2>0 DEF Inv, TypeOK, IsRoot
      <4>2. 2 * pw[y] <= pw[p[y]] /\ p[y] \in Nodes
        BY <4>1 DEF Inv, Doubling, TypeOK
      <4>3. pw[p[y]] <= pw'[p[y]] /\ pw'[y] = pw[y]
        BY <4>1, <4>2, <2>0 DEF Inv, TypeOK, Max
      <4>4. pw[y] \in Nat /\ pw[p[y]] \in Nat /\ pw'[p[y]] \in Nat
        BY <4>2, <2>1 DEF Inv, TypeOK
      <4> QED BY <4>1, <4>2, <4>3, <4>4
    <3> QED BY <3>1, <3>2
  <2> QED BY <2>1, <2>2, <2>3, <2>4 DEF Inv
<1> QED BY <1>1, <1>2, <1>3, <1>4 DEF Next

THEOREM Safety == Spec => []Inv
  BY InitInv, StepInv, PTL DEF Spec
=============================================================================
