----------------------------- MODULE DsuTrace -----------------------------
(***************************************************************************)
(* Implementation -> spec: a trace recorded from the real rlib_dsu::DSU is *)
(* checked line by line against the abstract specification (A).  Monitor   *)
(* style: every line is consumed, the abstract state advances by the       *)
(* action of (A) named by the event, and each disagreement between the     *)
(* logged result and what (A) demands is reported.                         *)
(*                                                                         *)
(* events   reset{n}  un{u,v,res}  par{v,res}  check{u,v,res}  size{v,res} *)
(*          clone{}   depth{v,d}   (d = length of v's parent chain, read   *)
(*                                  through the verif hook)                *)
(*          ckpt{n,d,cs}  big adversarial runs: deepest chain d, number of *)
(*                        elements cs below that chain's root (counted by  *)
(*                        the harness by walking the parent pointers)      *)
(***************************************************************************)
EXTENDS Dsu, TraceLib

VARIABLE l
tvars == <<n, comp, rep, l>>

RECURSIVE P2(_)
P2(k) == IF k = 0 THEN 1 ELSE 2 * P2(k - 1)

\* 2^d <= s without overflowing TLC's 32-bit integers
LogBound(d, s) == d <= 30 /\ P2(d) <= s

Init == n = 0 /\ comp = <<>> /\ rep = <<>> /\ l = 1

Step(e) ==
    CASE e.ev = "reset" -> AReset(e.n)
      [] e.ev = "un" ->
            /\ (e.res # UnResult(e.u, e.v)) => Mismatch(l, e, [res |-> UnResult(e.u, e.v)])
            /\ AUn(e.u, e.v)
      [] e.ev = "par" ->
            IF ParAllowed(e.v, e.res)
            THEN APar(e.v, e.res)
            ELSE Mismatch(l, e, [members |-> Members(comp[e.v]), shown |-> rep[comp[e.v]]])
                 /\ AStutter
      [] e.ev = "check" ->
            /\ (e.res # CheckResult(e.u, e.v)) => Mismatch(l, e, [res |-> CheckResult(e.u, e.v)])
            /\ AStutter
      [] e.ev = "size" ->
            /\ (e.res # SizeResult(e.v)) => Mismatch(l, e, [res |-> SizeResult(e.v)])
            /\ AStutter
      [] e.ev = "clone" -> AStutter
      [] e.ev = "depth" ->
            /\ (~LogBound(e.d, SizeResult(e.v))) => Mismatch(l, e, [size |-> SizeResult(e.v)])
            /\ AStutter
      [] e.ev = "ckpt" ->
            /\ (~(LogBound(e.d, e.cs) /\ e.cs <= e.n)) => Mismatch(l, e, [bound |-> "2^d <= cs <= n"])
            /\ AStutter
      [] OTHER -> Mismatch(l, e, "unknown event") /\ AStutter

Next == l <= Len(Rec) /\ Step(Rec[l]) /\ l' = l + 1

Spec == Init /\ [][Next]_tvars

Accepted == TLCGet("stats").diameter = Len(Rec) + 1
            \/ PrintT("INCOMPLETE " \o ToString(TLCGet("stats").diameter) \o " of " \o ToString(Len(Rec) + 1))
=============================================================================
