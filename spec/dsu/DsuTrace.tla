----------------------------- MODULE DsuTrace -----------------------------
(***************************************************************************)
(* Implementation -> spec: a trace recorded from the real rlib_dsu::DSU is *)
(* checked line by line against the abstract specification (A).  Monitor   *)
(* style: every line is consumed, the abstract state advances by the       *)
(* action of (A) named by the event, and each disagreement between the     *)
(* logged result and what (A) demands is reported.                         *)
(*                                                                         *)
(* events   reset{n}  un{u,v,res}  par{v,res}  check{u,v,res}  size{v,res} *)
(*          clone{}   depth{v,d}   (d = length of v's parent chain, read   *)
(*                                  through the verif hook)                *)
(*          ckpt{n,d,cs}  big adversarial runs: deepest chain d, number of *)
(*                        elements cs below that chain's root (counted by  *)
(*                        the harness by walking the parent pointers)      *)
(*          bigq{n,pattern,rows,rows_clone_from}  size / check / equal     *)
(*                        representatives on a big universe joined in      *)
(*                        chain or binomial order, on the object and on a  *)
(*                        clone_from copy of it                            *)
(***************************************************************************)
EXTENDS Dsu, TraceLib

VARIABLE l
tvars == <<n, comp, rep, l>>

RECURSIVE P2(_)
P2(k) == IF k = 0 THEN 1 ELSE 2 * P2(k - 1)

\* 2^d <= s without overflowing TLC's 32-bit integers
LogBound(d, s) == d <= 30 /\ P2(d) <= s

(* ---- the partition after the two bulk union orders used on big universes ---------------------------------- *)
JoinC(c, u, v) ==
    LET cu == c[u]
        cv == c[v]
        lo == IF cu < cv THEN cu ELSE cv
    IN [w \in DOMAIN c |-> IF c[w] = cu \/ c[w] = cv THEN lo ELSE c[w]]
RECURSIVE FoldJ(_, _, _)
FoldJ(c, sq, i) == IF i > Len(sq) THEN c ELSE FoldJ(JoinC(c, sq[i][1], sq[i][2]), sq, i + 1)
ChainSeq(k) == [i \in 1 .. (k - 1) |-> <<i, i - 1>>]
RECURSIVE BinRow(_, _, _)
BinRow(k, step, i) == IF i + step >= k THEN <<>> ELSE <<<<i, i + step>>>> \o BinRow(k, step, i + 2 * step)
RECURSIVE BinSeq(_, _)
BinSeq(k, step) == IF step >= k THEN <<>> ELSE BinRow(k, step, 0) \o BinSeq(k, 2 * step)
OneClass(c) == \A x, y \in DOMAIN c : c[x] = c[y]
\* evaluated by TLC at start-up: both orders leave a single class (here for every k up to 20; the argument -- after the
\* round with block length s every aligned block of 2s elements is one class -- does not depend on k)
ASSUME OneClassLemma ==
    \A k \in 1 .. 20 : LET id == [w \in 0 .. (k - 1) |-> w]
                        IN OneClass(FoldJ(id, ChainSeq(k), 1)) /\ OneClass(FoldJ(id, BinSeq(k, 1), 1))

Init == n = 0 /\ comp = <<>> /\ rep = <<>> /\ l = 1

Step(e) ==
    CASE e.ev = "reset" -> AReset(e.n)
      [] e.ev = "un" ->
            /\ (e.res # UnResult(e.u, e.v)) => Mismatch(l, e, [res |-> UnResult(e.u, e.v)])
            /\ AUn(e.u, e.v)
      [] e.ev = "par" ->
            IF ParAllowed(e.v, e.res)
            THEN APar(e.v, e.res)
            ELSE Mismatch(l, e, [members |-> Members(comp[e.v]), shown |-> rep[comp[e.v]]])
                 /\ AStutter
      [] e.ev = "check" ->
            /\ (e.res # CheckResult(e.u, e.v)) => Mismatch(l, e, [res |-> CheckResult(e.u, e.v)])
            /\ AStutter
      [] e.ev = "size" ->
            /\ (e.res # SizeResult(e.v)) => Mismatch(l, e, [res |-> SizeResult(e.v)])
            /\ AStutter
      [] e.ev = "clone" -> AStutter
      [] e.ev = "depth" ->
            /\ (~LogBound(e.d, SizeResult(e.v))) => Mismatch(l, e, [size |-> SizeResult(e.v)])
            /\ AStutter
      [] e.ev = "ckpt" ->
            /\ (~(LogBound(e.d, e.cs) /\ e.cs <= e.n)) => Mismatch(l, e, [bound |-> "2^d <= cs <= n"])
            /\ AStutter
      [] e.ev = "bigq" ->
            \* universes beyond what the trace spec tracks element by element: for the union orders `chain`
            \* (un(i, i-1) for all i) and `binomial` (blocks of 1, 2, 4, .. joined pairwise) (A) gives a single class
            \* of n elements (ASSUME OneClassLemma below evaluates that for small n); every probe must answer so
            /\ LET Bad(rows) == {i \in 1 .. Len(rows) : ~(rows[i][3] = e.n /\ rows[i][4] /\ rows[i][5])}
               IN (e.pattern \notin {"chain", "binomial"} \/ Bad(e.rows) # {} \/ Bad(e.rows_clone_from) # {}) =>
                      Mismatch(l, e, [all_connected_size |-> e.n])
            /\ AStutter
      [] OTHER -> Mismatch(l, e, "unknown event") /\ AStutter

Next == l <= Len(Rec) /\ Step(Rec[l]) /\ l' = l + 1

Spec == Init /\ [][Next]_tvars

Accepted == TLCGet("stats").diameter = Len(Rec) + 1
            \/ PrintT("INCOMPLETE " \o ToString(TLCGet("stats").diameter) \o " of " \o ToString(Len(Rec) + 1))
=============================================================================
