SPECIFICATION Spec
CONSTANT NoRep = NoRep
CONSTANT Sizes = {1, 3, 5}
VIEW View
INVARIANT EmitState
CHECK_DEADLOCK FALSE
