----------------------------- MODULE DsuImpl -----------------------------
(***************************************************************************)
(* (B) Implementation-shaped model of rlib_dsu::DSU (rlib/dsu/src/lib.rs), *)
(* run in lockstep with the abstract specification (A) of module Dsu.      *)
(*                                                                         *)
(*   p, sz        the two Vec<usize>                                       *)
(*   Find(q, v)   `par`: recursive find with path compression; returns the *)
(*                new parent array and the root                            *)
(*   un           union by size: the root with the *smaller or equal* size *)
(*                is attached below the other (`if sz[u] > sz[v] swap`)    *)
(*   reset(k)     resize both vectors and re-initialise the first k cells  *)
(*                                                                         *)
(* Every public call is one action; the refinement invariants compare what *)
(* (B) would answer with what (A) demands for every enabled query.         *)
(***************************************************************************)
EXTENDS Dsu, TLC

VARIABLES p, sz
bvars == <<p, sz>>
vars == <<n, comp, rep, p, sz>>

RECURSIVE FindRec(_, _)
\* returns <<newP, root>>
FindRec(q, v) ==
    IF q[v] # v
    THEN LET sub == FindRec(q, q[v])
         IN <<[sub[1] EXCEPT ![v] = sub[2]], sub[2]>>
    ELSE <<q, v>>

RECURSIVE RootOf(_, _)
RootOf(q, v) == IF q[v] = v THEN v ELSE RootOf(q, q[v])

RECURSIVE DepthOf(_, _)
DepthOf(q, v) == IF q[v] = v THEN 0 ELSE 1 + DepthOf(q, q[v])

RECURSIVE Pow2(_)
Pow2(k) == IF k = 0 THEN 1 ELSE 2 * Pow2(k - 1)

BInit(k) == p = [v \in 0 .. (k - 1) |-> v] /\ sz = [v \in 0 .. (k - 1) |-> 1]
BReset(k) == p' = [v \in 0 .. (k - 1) |-> v] /\ sz' = [v \in 0 .. (k - 1) |-> 1]

BParResult(v) == FindRec(p, v)[2]
BPar(v) == p' = FindRec(p, v)[1] /\ sz' = sz

BUnResult(u, v) ==
    LET f1 == FindRec(p, u)
        f2 == FindRec(f1[1], v)
    IN f1[2] # f2[2]

BUn(u, v) ==
    LET f1 == FindRec(p, u)
        f2 == FindRec(f1[1], v)
        ru == f1[2]
        rv == f2[2]
        q  == f2[1]
    IN IF ru = rv
       THEN p' = q /\ sz' = sz
       ELSE LET a == IF sz[ru] > sz[rv] THEN rv ELSE ru   \* attached below
                b == IF sz[ru] > sz[rv] THEN ru ELSE rv   \* new root
            IN /\ sz' = [sz EXCEPT ![b] = sz[b] + sz[a]]
               /\ p' = [q EXCEPT ![a] = b]

BCheckResult(u, v) ==
    LET f1 == FindRec(p, u)
        f2 == FindRec(f1[1], v)
    IN f1[2] = f2[2]
BCheck(u, v) ==
    LET f1 == FindRec(p, u)
        f2 == FindRec(f1[1], v)
    IN p' = f2[1] /\ sz' = sz

BSizeResult(v) == sz[FindRec(p, v)[2]]
BSize(v) == BPar(v)

(* ---- lockstep actions ------------------------------------------------ *)
Reset(k)    == AReset(k) /\ BReset(k)
Un(u, v)    == AUn(u, v) /\ BUn(u, v)
Par(v)      == APar(v, BParResult(v)) /\ BPar(v)
Check(u, v) == AStutter /\ BCheck(u, v)
Size(v)     == AStutter /\ BSize(v)

(* ---- invariants -------------------------------------------------------- *)
BTypeOK ==
    /\ DOMAIN p = Elems /\ DOMAIN sz = Elems
    /\ \A v \in Elems : p[v] \in Elems /\ sz[v] \in 1 .. n

\* Refinement: in every reachable state every enabled query answers as (A) demands.
Refines ==
    /\ \A u, v \in Elems : BUnResult(u, v) = UnResult(u, v)
    /\ \A u, v \in Elems : BCheckResult(u, v) = CheckResult(u, v)
    /\ \A v \in Elems : BSizeResult(v) = SizeResult(v)
    /\ \A v \in Elems : ParAllowed(v, BParResult(v))

\* structural: the forest's roots partition the elements exactly as comp does,
\* and the size stored at a root is the cardinality of its tree
Structure ==
    /\ \A u, v \in Elems : (RootOf(p, u) = RootOf(p, v)) <=> (comp[u] = comp[v])
    /\ \A v \in Elems : p[v] = v => sz[v] = Cardinality({w \in Elems : RootOf(p, w) = v})

\* C05, second sentence: the forest is never deeper than log2(component size)
LogDepth == \A v \in Elems : Pow2(DepthOf(p, v)) <= sz[RootOf(p, v)]
=============================================================================
