SPECIFICATION Spec
CONSTANT NoRep = NoRep
POSTCONDITION Accepted
CHECK_DEADLOCK FALSE
