------------------------------ MODULE DsuGen ------------------------------
(***************************************************************************)
(* Spec -> implementation: explore the complete (A)+(B) state graph and    *)
(* emit, once per distinct state, a history reaching it together with the  *)
(* complete table of answers (A) demands there.  hist is hidden from the   *)
(* fingerprint by the VIEW, so the exploration is the one of MC_Dsu.       *)
(***************************************************************************)
EXTENDS DsuImpl, TraceLib

CONSTANT Sizes

VARIABLE hist
gvars == <<n, comp, rep, p, sz, hist>>
View == <<n, comp, rep, p, sz>>

Op(name, a, b, r) == [op |-> name, a |-> a, b |-> b, r |-> r]

Init == \E k \in Sizes : AInit(k) /\ BInit(k) /\ hist = <<Op("new", k, 0, 0)>>

Next ==
    \* a reset leads to a state that is usually already known (the fresh one): emit this TRANSITION as a case of its
    \* own, so that "reset leaves no trace of the history before it" is replayed for every state it is taken from
    \/ \E k \in Sizes : Reset(k) /\ hist' = Append(hist, Op("reset", k, 0, 0))
                          /\ Emit([hist |-> hist', n |-> k, comp |-> [i \in 1 .. k |-> i - 1], size |-> [i \in 1 .. k |-> 1],
                                   rep |-> [i \in 1 .. k |-> -1], bdepth |-> 0])
    \/ \E u, v \in Elems : Un(u, v) /\ hist' = Append(hist, Op("un", u, v, B2I(UnResult(u, v))))
    \/ \E v \in Elems : Par(v) /\ hist' = Append(hist, Op("par", v, 0, 0))
    \/ \E u, v \in Elems : Check(u, v) /\ hist' = Append(hist, Op("check", u, v, B2I(CheckResult(u, v))))
    \/ \E v \in Elems : Size(v) /\ hist' = Append(hist, Op("size", v, 0, SizeResult(v)))

Spec == Init /\ [][Next]_gvars

\* depth the model predicts (reported as model drift only, never a verdict)
MaxDepthB == LET S == {DepthOf(p, v) : v \in Elems} IN CHOOSE d \in S : \A e \in S : e <= d

EmitState ==
    Emit([hist  |-> hist,
          n     |-> n,
          comp  |-> [i \in 1 .. n |-> comp[i - 1]],
          size  |-> [i \in 1 .. n |-> SizeResult(i - 1)],
          rep   |-> [i \in 1 .. n |-> IF rep[i - 1] = NoRep THEN -1 ELSE rep[i - 1]],
          bdepth |-> MaxDepthB])
=============================================================================
