------------------------------ MODULE MC_Dsu ------------------------------
(* Exhaustive model check of (A)+(B) for all sizes in Sizes: complete state  *)
(* space (no depth bound).                                                   *)
EXTENDS DsuImpl

CONSTANT Sizes

Init == \E k \in Sizes : AInit(k) /\ BInit(k)

\* one named action per public call, so that TLC's coverage report names them
DoReset == \E k \in Sizes : Reset(k)
DoUn    == \E u, v \in Elems : Un(u, v)
DoPar   == \E v \in Elems : Par(v)
DoCheck == \E u, v \in Elems : Check(u, v)
DoSize  == \E v \in Elems : Size(v)

Next == DoReset \/ DoUn \/ DoPar \/ DoCheck \/ DoSize

Spec == Init /\ [][Next]_vars

\* the representative shown for a component does not move unless a union happens:
\* for every non-union step, every component that had shown one still shows it.
RepStable ==
    [][ (\A c \in DOMAIN rep : rep[c] # NoRep => (n' = n => (rep'[c] = rep[c] \/ rep' = FreshRep(n))))]_vars
=============================================================================
