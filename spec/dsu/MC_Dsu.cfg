SPECIFICATION Spec
CONSTANT NoRep = NoRep
CONSTANT Sizes = {1, 3, 5}
INVARIANT ATypeOK
INVARIANT BTypeOK
INVARIANT PartitionOK
INVARIANT Refines
INVARIANT Structure
INVARIANT LogDepth
CHECK_DEADLOCK FALSE
