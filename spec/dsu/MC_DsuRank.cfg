SPECIFICATION Spec
CONSTANT NoRep = NoRep
CONSTANT Sizes = {1, 3, 5}
INVARIANT BTypeOK
INVARIANT Doubling
INVARIANT RootWeight
INVARIANT Positive
INVARIANT DepthFromWeight
INVARIANT LogDepth
CHECK_DEADLOCK FALSE
