----------------------------- MODULE MC_DsuRank -----------------------------
(***************************************************************************)
(* Binds the invariant proved for all n in DsuRank.tla (TLAPS) to the      *)
(* implementation-shaped model (B): the ghost weight pw of DsuRank is      *)
(* carried along the real transitions of DsuImpl (recursive find with full *)
(* compression, union by size, reset) and the three clauses of             *)
(* DsuRank!Inv -- plus the consequence the depth argument uses -- are      *)
(* checked by TLC in every reachable state of the complete state space.    *)
(***************************************************************************)
EXTENDS DsuImpl

CONSTANT Sizes
VARIABLE pw
rvars == <<n, comp, rep, p, sz, pw>>

MaxN(a, b) == IF a >= b THEN a ELSE b
Ones(k) == [v \in 0 .. (k - 1) |-> 1]

GhostUn(u, v) ==
    LET ru == RootOf(p, u)
        rv == RootOf(p, v)
    IN IF ru = rv THEN pw' = pw
       ELSE LET a == IF sz[ru] > sz[rv] THEN rv ELSE ru
                b == IF sz[ru] > sz[rv] THEN ru ELSE rv
            IN pw' = [pw EXCEPT ![b] = MaxN(pw[b], 2 * pw[a])]

Init == \E k \in Sizes : AInit(k) /\ BInit(k) /\ pw = Ones(k)

DoReset == \E k \in Sizes : Reset(k) /\ pw' = Ones(k)
DoUn    == \E u, v \in Elems : Un(u, v) /\ GhostUn(u, v)
DoPar   == \E v \in Elems : Par(v) /\ pw' = pw
DoCheck == \E u, v \in Elems : Check(u, v) /\ pw' = pw
DoSize  == \E v \in Elems : Size(v) /\ pw' = pw

Next == DoReset \/ DoUn \/ DoPar \/ DoCheck \/ DoSize
Spec == Init /\ [][Next]_rvars

Doubling == \A x \in Elems : p[x] # x => 2 * pw[x] <= pw[p[x]]
RootWeight == \A x \in Elems : p[x] = x => pw[x] <= sz[x]
Positive == \A x \in Elems : pw[x] >= 1
\* what Doubling gives by induction along a path, and with RootWeight the log-depth clause
DepthFromWeight == \A x \in Elems : Pow2(DepthOf(p, x)) * pw[x] <= pw[RootOf(p, x)]
=============================================================================
