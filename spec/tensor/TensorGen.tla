------------------------------ MODULE TensorGen ------------------------------
(***************************************************************************)
(* Spec -> implementation for C19: TLC enumerates every shape of rank      *)
(* 1..MaxRank with extents 1..MaxExt and emits, per shape: every valid     *)
(* index with its row-major offset; every index that is out of range in    *)
(* exactly one dimension (marked when its flattened offset would still be  *)
(* inside the storage: the silent-aliasing cases); constructor rejections; *)
(* the text rendering; and every other shape of the same rank with the     *)
(* same element count (equality must be FALSE for equal data).             *)
(***************************************************************************)
EXTENDS Tensor, TraceLib

CONSTANTS MaxRank, MaxExt

VARIABLE dims
RECURSIVE Shapes(_)
Shapes(r) == IF r = 0 THEN {<<>>} ELSE {Append(s, e) : s \in Shapes(r - 1), e \in 1 .. MaxExt}

Init == dims \in UNION {Shapes(r) : r \in 1 .. MaxRank}
Next == UNCHANGED dims
Spec == Init /\ [][Next]_dims

DataOf(d) == [k \in 1 .. Count(d) |-> (k - 1) * 7]

\* out of range in exactly one dimension (by 0, 1 or 2 beyond the extent)
OneOff(d) == {idx \in AllIdx([i \in 1 .. Len(d) |-> d[i] + 3], 1) :
                  Cardinality({i \in 1 .. Len(d) : idx[i] >= d[i]}) = 1}

SameCount == {s \in Shapes(Len(dims)) : s # dims /\ Count(s) = Count(dims)}

\* a property of the definition itself: Flat is a bijection from the valid indices onto 0 .. Count-1
FlatIsBijection ==
    LET V == AllIdx(dims, 1)
    IN /\ \A i \in V : Flat(dims, i) \in 0 .. Count(dims) - 1
       /\ \A i, j \in V : i # j => Flat(dims, i) # Flat(dims, j)
       /\ Cardinality(V) = Count(dims)

EmitShape ==
    Emit([dims |-> dims, data |-> DataOf(dims),
          valid |-> {[idx |-> i, off |-> Flat(dims, i)] : i \in AllIdx(dims, 1)},
          oob |-> {[idx |-> i, aliases |-> Flat(dims, i) < Count(dims)] : i \in OneOff(dims)},
          zero |-> {[dims EXCEPT ![i] = 0] : i \in 1 .. Len(dims)},
          same_count |-> SameCount,
          render |-> Render(dims, DataOf(dims))])
=============================================================================
