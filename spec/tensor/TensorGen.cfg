SPECIFICATION Spec
CONSTANT MaxRank = 4
CONSTANT MaxExt = 3
INVARIANT FlatIsBijection
INVARIANT EmitShape
CHECK_DEADLOCK FALSE
