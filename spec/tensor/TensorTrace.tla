----------------------------- MODULE TensorTrace -----------------------------
(***************************************************************************)
(* Implementation -> spec for C19 (IO round trip): a tensor with random     *)
(* shape and element values written with the real Writer and read back     *)
(* with the real Reader.   io{dims,data,written,back,eq}                   *)
(***************************************************************************)
EXTENDS Tensor, TraceLib

VARIABLE l
Init == l = 1

Step(e) ==
    IF "panic" \in DOMAIN e THEN Mismatch(l, [ev |-> e.ev, dims |-> e.dims, panic |-> e.panic], "must not panic")
    ELSE CASE e.ev = "io" ->
                /\ (e.written # Render(e.dims, e.data)) => Mismatch(l, [ev |-> "io", op |-> "write", dims |-> e.dims, written |-> e.written], [render |-> Render(e.dims, e.data)])
                /\ (e.back # e.data \/ ~e.eq) => Mismatch(l, [ev |-> "io", op |-> "read", dims |-> e.dims, back |-> e.back, eq |-> e.eq], [data |-> e.data])
           [] OTHER -> TRUE

Next == l <= Len(Rec) /\ Step(Rec[l]) /\ l' = l + 1
Spec == Init /\ [][Next]_l
Accepted == TLCGet("stats").diameter = Len(Rec) + 1
            \/ PrintT("INCOMPLETE " \o ToString(TLCGet("stats").diameter) \o " of " \o ToString(Len(Rec) + 1))
=============================================================================
