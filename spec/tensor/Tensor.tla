------------------------------- MODULE Tensor -------------------------------
(***************************************************************************)
(* (A) Specification of rlib_tensor::Tensor<T, D> (C19): a row-major array *)
(* with per-dimension bounds checks.  dims and multi-indices are sequences *)
(* of naturals (index components 0-based); data is the flat sequence.      *)
(***************************************************************************)
EXTENDS Integers, Sequences, FiniteSets

RECURSIVE Prod(_, _)
\* product of dims[i..]
Prod(dims, i) == IF i > Len(dims) THEN 1 ELSE dims[i] * Prod(dims, i + 1)
Count(dims) == Prod(dims, 1)

ValidDims(dims) == \A i \in 1 .. Len(dims) : dims[i] > 0
\* construction from a vector / slice is accepted iff the extents are positive and the length matches
CtorAccepts(dims, len) == ValidDims(dims) /\ Count(dims) = len

InRange(dims, idx) == \A i \in 1 .. Len(dims) : idx[i] >= 0 /\ idx[i] < dims[i]
RECURSIVE FlatFrom(_, _, _)
\* row-major offset, last index fastest: sum of idx[i] * product of the later extents
FlatFrom(dims, idx, i) == IF i > Len(dims) THEN 0 ELSE idx[i] * Prod(dims, i + 1) + FlatFrom(dims, idx, i + 1)
Flat(dims, idx) == FlatFrom(dims, idx, 1)

\* t[idx]: the element, or a panic when any single component is out of range (never another element)
Get(dims, data, idx) == IF InRange(dims, idx) THEN [panic |-> FALSE, v |-> data[Flat(dims, idx) + 1]] ELSE [panic |-> TRUE, v |-> 0]

\* tensors of the same rank are equal iff both shape and elements agree
Eq(dims1, data1, dims2, data2) == dims1 = dims2 /\ data1 = data2
\* the != operator is the negation (checked in the replay as `tensor.ne`)
Ne(dims1, data1, dims2, data2) == ~Eq(dims1, data1, dims2, data2)

RECURSIVE AllIdx(_, _)
\* all multi-indices with idx[i] in 0 .. bound[i]-1, for i >= k
AllIdx(bound, k) == IF k > Len(bound) THEN {<<>>} ELSE {<<x>> \o r : x \in 0 .. bound[k] - 1, r \in AllIdx(bound, k + 1)}

(* ---- text rendering (Writable): spaces inside the last dimension, one more newline per outer dimension ---- *)
RECURSIVE DigitsOf(_)
DigitsOf(n) == IF n < 10 THEN <<48 + n>> ELSE DigitsOf(n \div 10) \o <<48 + (n % 10)>>
Decimal(n) == IF n < 0 THEN <<45>> \o DigitsOf(0 - n) ELSE DigitsOf(n)

\* number of trailing dimensions that wrap around when moving from flat position k-1 to k (k >= 1)
RECURSIVE Wraps(_, _, _)
Wraps(dims, k, t) == IF t >= Len(dims) THEN t
                     ELSE IF k % Prod(dims, Len(dims) - t) = 0 THEN Wraps(dims, k, t + 1) ELSE t
Separator(dims, k) == LET t == Wraps(dims, k, 0) IN IF t = 0 THEN <<32>> ELSE [i \in 1 .. t |-> 10]

RECURSIVE RenderFrom(_, _, _)
RenderFrom(dims, data, k) ==
    IF k > Len(data) THEN <<>>
    ELSE (IF k > 1 THEN Separator(dims, k - 1) ELSE <<>>) \o Decimal(data[k]) \o RenderFrom(dims, data, k + 1)
Render(dims, data) == RenderFrom(dims, data, 1)
=============================================================================
