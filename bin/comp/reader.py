"""C08 — rlib_io::Reader (spec/reader)."""
import os
from vlib import ToolError

FULL = "{49, 45, 32, 10, 13, 97}"      # '1' '-' ' ' LF CR 'a'
LINES = "{49, 32, 10, 13}"


def build(ctx, v=None):
    return ctx.build()


def build_small(ctx):
    return ctx.build(features=["smallbuf"], env={"CARGO_TARGET_DIR": os.path.join(ctx_h(), "target_small")})


def ctx_h():
    import vlib
    return vlib.HARNESS


def small_binary(ctx):
    import vlib
    rc, out, dt = vlib.sh(["cargo", "build", "--offline", "--quiet", "--features", "smallbuf", "--target-dir", "target_small"],
                          cwd=vlib.HARNESS, timeout=1800, env={"CARGO_NET_OFFLINE": "true"})
    if rc != 0:
        raise ToolError("small-buffer harness build failed:\n" + out[-4000:])
    ctx.log("built harness (verif_small_buf) in %.1fs" % dt)
    return os.path.join(vlib.HARNESS, "target_small", "debug", "drv")


ACTIONS = ["DoStr", "DoChar", "DoInt", "DoUint", "DoEof", "DoLine", "DoLines"]


def run(ctx):
    ctx.rule = ("MC: all inputs over the alphabet {'1','-',' ',LF,CR,'a'} up to MaxLen bytes x all source behaviours "
                "(every chunking, Interrupted anywhere) x all scripts, (A) Reader vs (B) ReaderImpl, BUF in {2,3,4}. "
                "S->I: one replay case per transition of that graph (input, per-call source behaviour, expected "
                "results), run on the real Reader built with a 4-byte buffer and with the production buffer, for every "
                "integer width that can hold the values; plus the same over {'1',LF,CR} up to 5 (thorough 6) bytes, longer than "
                "the 4-byte buffer; non-trivial = case whose schedule splits the input or raises Interrupted. I->S: 1 MB (thorough 6 MB) of generated token/line inputs read through the 64 KiB "
                "buffer under 7 chunking modes, plus LF/CR-dense wrap probes a few bytes longer than one or two buffers ending in a lone CR, validated by ReaderTrace against (A) with BigNat integers.")
    prod = build(ctx)
    small = small_binary(ctx)
    # --- MC: refinement of (B) to (A) under every source behaviour
    configs = ctx.q([("3", FULL, "3", "1"), ("2", LINES, "4", "1")],
                    [("2", FULL, "4", "1"), ("3", FULL, "4", "2"), ("4", FULL, "4", "1"), ("3", LINES, "6", "1")])
    for i, (buf, alpha, maxlen, ei) in enumerate(configs):
        cfg = ctx.cfg("reader", "MC_Reader.cfg", {"BUF": buf, "Alphabet": alpha, "MaxLen": maxlen, "MaxEintr": ei}, name="MC_Reader_%d.cfg" % i)
        ctx.mc("reader", "MC_Reader", cfg, stage="mc%d" % i, workers=8, timeout=ctx.q(900, 3000), expect_actions=ACTIONS)
    # --- anti-vacuity: the model of the code as it was at the pinned commit must be rejected by TLC
    for name, over in (("neg-eofguard", {"EofGuard": "FALSE"}), ("neg-interrupted", {"RetryInterrupted": "FALSE"})):
        o = {"BUF": "3", "Alphabet": LINES, "MaxLen": "3", "MaxEintr": "1"}
        o.update(over)
        cfg = ctx.cfg("reader", "MC_Reader.cfg", o, name="MC_Reader_%s.cfg" % name)
        r = ctx.tlc("reader", "MC_Reader", cfg, name, workers=4, timeout=600, allow_fail=True, coverage=False)
        if r["ok"] or "Invariant Refines is violated" not in r["out"]:
            raise ToolError("negative test %s: TLC did not reject the defective model" % name)
        ctx.stages.append({"stage": name, "kind": "negative test: defective design rejected by TLC", "wall_s": r["wall_s"]})
        ctx.log("%s: defective model rejected by TLC as expected" % name)
    # --- S->I
    g = ctx.cfg("reader", "ReaderGen.cfg", {"MaxLen": ctx.q("3", "4"), "MaxEintr": ctx.q("1", "1")})
    cases, n = ctx.gen("reader", "ReaderGen", g, "cases.ndjson", workers=8, timeout=ctx.q(900, 3000), coverage=False)
    v1 = ctx.replay(small, "reader", cases, stage="replay-buf4")
    v2 = ctx.replay(prod, "reader", cases, stage="replay-buf64k")
    ctx.distinct_nontrivial += v1["extra"].get("nontrivial_cases", 0)
    # inputs longer than the 4-byte buffer (the buffer is refilled, and reused, at least once): line alphabet only
    g2 = ctx.cfg("reader", "ReaderGen.cfg", {"Alphabet": "{49, 10, 13}", "MaxLen": ctx.q("5", "6"), "MaxEintr": "0"}, name="ReaderGen_long.cfg")
    cases2, n2 = ctx.gen("reader", "ReaderGen", g2, "cases_long.ndjson", workers=8, timeout=ctx.q(900, 3000), coverage=False, stage="gen-long")
    v3 = ctx.replay(small, "reader", cases2, stage="replay-long-buf4")
    ctx.distinct_nontrivial += v3["extra"].get("nontrivial_cases", 0)
    ctx.extra["distinct_inputs_replayed"] = v1["extra"].get("distinct_inputs")
    ctx.exhaustive = True
    # --- I->S
    trace, info = ctx.record(prod, "reader")
    ctx.validate("reader", "ReaderTrace", ctx.cfg("reader", "ReaderTrace.cfg"), trace, runs=info.get("runs", 1),
                 timeout=ctx.q(1200, 6000), keyfn=trace_key)
    ctx.extra["record_info"] = info
    ctx._sample({"direction": "impl->spec", "stage": "record", "note": "reset events carry the whole input; first call events",
                 "first_events": head_events(trace)})
    ctx.assumptions += [
        "TLC 1.8 evaluates the TLA+ specifications correctly",
        "the scripted source is a lawful std::io::Read (never returns 0 before the end of the data, Interrupted is transient)",
        "integer results are compared as sign + 12-bit limbs obtained by bit slicing; decimal token values are computed by BigNat Horner evaluation in TLA+",
        "tokens are only requested where the script guarantees a valid one (outside that the crate only has debug assertions)",
    ]


def head_events(trace, k=4):
    import json
    out = []
    with open(trace) as f:
        for line in f:
            e = json.loads(line)
            if e.get("ev") == "reset":
                e = {"ev": "reset", "inp_len": len(e["inp"]), "inp_head": e["inp"][:40], "mode": e.get("mode"), "eintr": e.get("eintr")}
            out.append(e)
            if len(out) >= k:
                break
    return out


def trace_key(m):
    got = m.get("got") or {}
    ev = got.get("ev", "?")
    if "panic" in got:
        tag = " [source raised Interrupted]" if "Interrupted" in str(got.get("panic")) else ""
        return "reader.%s: panic%s" % (ev, tag)
    return "reader.%s: wrong result" % ev


def validate_segment(ctx, v, trace):
    ctx.validate("reader", "ReaderTrace", ctx.cfg("reader", "ReaderTrace.cfg"), trace, keyfn=trace_key)
