"""Behaviour beyond the listed properties (DESIGN.md 10.8): specifications that cover the rest of the library.

X01 show: rlib_show (Show for integers / floats / strings / containers / tuples / show_struct!, ShowPretty for matrices
and maps), rlib_treap's Debug and TreePrinter, rlib_io's out!/outln! macros -- recorded from the real code and judged
by spec/show/ShowTrace.tla.  A disagreement is reported as BEYOND-MISMATCH (exit 1), never as a property VIOLATION.
"""
import json
import random
from vlib import ToolError


def build(ctx, v=None):
    return ctx.build(release=True)


def run(ctx, comp="show"):
    ctx.rule = ("I->S: 60 (thorough 400) rounds of settings (item_width, float_precision, inf thresholds) x every integer type at "
                "powers of ten / two and type boundaries, floats (ties, subnormals, huge, NaN/inf), strings, nested "
                "containers, tuples up to 12, a show_struct! type, ragged matrices and maps through show_pretty, treap "
                "Debug/TreePrinter on random shapes, out!/outln! through a real Writer; every text checked by TLC "
                "against module Show (decimal texts by Horner evaluation, float texts by exact rounding with BigNat). "
                "Binding test: corrupted copies of the trace must be rejected.")
    binary = build(ctx)
    trace, info = ctx.record(binary, "show")
    base = ctx.validate("show", "ShowTrace", ctx.cfg("show", "ShowTrace.cfg"), trace, runs=info.get("runs", 1), timeout=ctx.q(900, 3600),
                 keyfn=lambda m: "show.%s: text differs from the specification" % (m.get("got", {}).get("ev", "?") if isinstance(m.get("got"), dict) else "?"))
    ctx.extra["record_info"] = info
    # ---- binding: every kind of event, corrupted in one field, must be rejected
    lines = open(trace).read().splitlines()
    rnd = random.Random(ctx.seed)
    by_kind = {}
    for i, l in enumerate(lines):
        e = json.loads(l)
        if e["ev"] != "reset" and len(e.get("out", [])) > 2 and (i + 1) not in {f["detail"]["line"] for f in base}:
            by_kind.setdefault(e["ev"], []).append(i)
    corrupted = {}
    out = list(lines)
    for kind, idxs in sorted(by_kind.items()):
        for i in rnd.sample(idxs, min(3, len(idxs))):
            e = json.loads(lines[i])
            j = rnd.randrange(len(e["out"]))
            e["out"][j] = e["out"][j] + 1 if e["out"][j] != 32 else 48
            out[i] = json.dumps(e)
            corrupted[i + 1] = kind
    neg = ctx.path("trace-corrupted.ndjson")
    open(neg, "w").write("\n".join(out) + "\n")
    r = ctx.validate("show", "ShowTrace", ctx.cfg("show", "ShowTrace.cfg"), neg, stage="negative-binding", record_violations=False, runs=0)
    ctx.trace_events -= len(out)
    rejected = {f["detail"]["line"] for f in r} - {f["detail"]["line"] for f in base}
    if rejected - set(corrupted):
        raise ToolError("binding test: lines that were not corrupted were rejected: %s" % sorted(rejected - set(corrupted))[:5])
    missed = [k for ln, k in corrupted.items() if ln not in rejected]
    if missed:
        raise ToolError("binding test: corrupted events accepted by ShowTrace: %s" % missed)
    ctx.log("binding test: %d corrupted events (%s) all rejected" % (len(corrupted), ", ".join(sorted(by_kind))))
    ctx.stages.append({"stage": "negative-binding", "kind": "corrupted trace rejected by TLC", "events": len(corrupted)})
    ctx.assumptions += ["TLC 1.8 evaluates the TLA+ specifications correctly",
                        "ASCII only: column widths of show_pretty are computed from byte lengths in the code and padded by characters",
                        "BTree containers only (Hash containers iterate in an unspecified order)"]
