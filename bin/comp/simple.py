"""Components whose specification is a set of definitions over values (no hidden state): the harness records
tables / single operations (with witnesses where a definition needs a quotient), TLC judges every entry against the
TLA+ definitions (trace validation), optionally preceded by TLC-generated cases replayed into the code."""
import os
import vlib

def iter_pre(ctx, binary):
    g = ctx.cfg("iter", "IterGen.cfg", {"MaxLen3": ctx.q("6", "7"), "MaxDistinct": ctx.q("6", "8")})
    cases, n = ctx.gen("iter", "IterGen", g, "cases.ndjson", stage="gen", workers=8, timeout=ctx.q(900, 5000), coverage=False)
    v = ctx.replay(binary, "iter", cases)
    ctx.distinct_nontrivial += v["extra"].get("nontrivial_cases", 0)


def tensor_pre(ctx, binary):
    g = ctx.cfg("tensor", "TensorGen.cfg", {"MaxExt": ctx.q("4", "5")})
    cases, n = ctx.gen("tensor", "TensorGen", g, "cases.ndjson", stage="gen", workers=8, timeout=ctx.q(900, 5000), coverage=False)
    v = ctx.replay(binary, "tensor", cases)
    ctx.distinct_nontrivial += v["extra"].get("nontrivial_cases", 0)
    # the same cases on the optimised build (no overflow checks: index arithmetic wraps instead of panicking)
    ctx.replay(ctx.build(release=True), "tensor", cases, stage="replay-release-build")


def fft_pre(ctx, binary):
    # design level: the index logic and packing identities over an exact field, in every plan state
    mc = ctx.cfg("fft", "MC_Fft.cfg", {"MaxLen": ctx.q("9", "17")})
    ctx.mc("fft", "MC_Fft", mc, stage="mc", workers=4, timeout=ctx.q(900, 5000), coverage=False)
    neg = ctx.cfg("fft", "MC_Fft.cfg", {"MaxLen": "5", "SharedByStride": "FALSE"}, name="MC_Fft_neg.cfg")
    r = ctx.tlc("fft", "MC_Fft", neg, "mc-neg-stride", workers=4, timeout=600, allow_fail=True, coverage=False)
    if r["ok"] or "Invariant Refines is violated" not in r["out"]:
        raise vlib.ToolError("negative test: TLC did not reject the model that ignores the stride of the shared twiddle table")
    ctx.stages.append({"stage": "mc-neg-stride", "kind": "negative test: defective design rejected by TLC", "wall_s": r["wall_s"]})
    g = ctx.cfg("fft", "FftGen.cfg", {"Depth": ctx.q("2", "3")})
    cases, n = ctx.gen("fft", "FftGen", g, "cases.ndjson", stage="gen", workers=8, timeout=ctx.q(900, 5000), coverage=False)
    v = ctx.replay(binary, "fft", cases)
    ctx.distinct_nontrivial += v["extra"].get("nontrivial_cases", 0)
    dev = ctx.build()
    ctx.replay(dev, "fft", cases, stage="replay-debug-build")
    # beyond the listed property: the Complex<F> arithmetic the transform is built on, against Gaussian integers
    trace, info = ctx.record(binary, "fft", mode="record-complex", stage="record-complex")
    ctx.validate("fft", "ComplexTrace", ctx.cfg("fft", "ComplexTrace.cfg"), trace, stage="validate-complex", runs=info.get("runs", 1),
                 keyfn=lambda m: "fft.complex: differs from Gaussian-integer arithmetic")


SPECS = {
    "mint": {
        "also_release": True,
        "module": "MintTrace",
        "rule": ("I->S: (i) complete tables of +,-,*,/ (value and assigning forms), neg, inv, pow (d <= 2M), new (|v| <= 3M) and == for "
                 "EVERY modulus 2..40 (thorough 2..48), each entry checked by TLC against the definition on native integers; (ii) single "
                 "operations on eight 31-bit moduli (998244353, 1e9+7, 2^31-1, 2^31-2, 2^31-19, 2^30+3, 2^30, 223092870) with boundary and "
                 "random operands, i64 extremes for new (also through the Readable impl), exponents up to u64::MAX, checked by TLC on "
                 "BigNat through the defining relation v = q*M + r, 0 <= r < M (quotients, Bezout pairs and square-and-multiply chains are "
                 "witnesses logged by the harness and verified by the spec); renderings checked as canonical decimals. Non-trivial = "
                 "every table entry / big operation."),
        "assumptions": [
            "witnesses (quotients, Bezout coefficients, power chains) come from the harness's own 128-bit arithmetic; the specification "
            "accepts a claim only if the defining relation holds, so a wrong witness can only cause a rejection",
            "division/inverse are judged only for operands coprime to the modulus (coprimality proved by the Bezout witness)",
        ],
    },
    "gcd": {
        "also_release": True,
        "module": "GcdTrace",
        "rule": ("I->S: gcd and lcm of ALL pairs in -40..40 (0..40 unsigned) for each of the 12 integer types; egcd(a,b,c) for the whole "
                 "cube |a|,|b|,|c| <= 12 (i64; smaller cubes for i32, i128), (a,b) != (0,0); crt for ALL moduli 1..18 (thorough 24) with "
                 "all reduced residues -- every entry checked by TLC against the tabulated definition (greatest common divisor by "
                 "divisibility, Some iff gcd | c and a*x+b*y=c, unique z in [0,lcm)); plus sampled large operands (|.| up to 2^20 for "
                 "egcd/crt, up to 2^60 / 2^100 for gcd/lcm on i64, u64, i128) checked on BigInt with witnesses (cofactors and a Bezout "
                 "pair prove g is the gcd; c = g*k + rem with 0 < rem < g proves a None); recorded from both build profiles; plus, for each of the 12 types, gcd of all pairs "
                 "from {MAX, MAX-1, MAX-2, MAX/2, MAX/2+1, MAX/2+2 (= 2^(k-1) +- 1 for unsigned), 2/3, 3/4, 4/5 of MAX, 0, 1, 2, 3, 6} in "
                 "all sign patterns and lcm wherever it fits (u128 above 2^127 with evident witnesses), run with overflow checks. "
                 "Non-trivial = every table entry / big event."),
        "assumptions": [
            "witnesses come from the harness's own 128-bit extended Euclid; the specification accepts a claim only if the defining "
            "relation holds",
            "lcm(0,0), egcd(0,0,c), the minimum value of signed types and products that do not fit the type are outside the quantifier",
        ],
    },
    "rational": {
        "also_release": True,
        "module": "RationalTrace",
        "rule": ("I->S: for every a/b, c/d with |.| <= 5 (thorough 6) and non-zero denominators of either sign, over i64 (smaller box for "
                 "i32, i128): new, +, -, *, / in by-value, by-reference and assigning form, cmp, ==, <, <=, hash equality; for every a/b "
                 "with |a| <= 3k: neg, floor, ceil -- every result checked by TLC against the cross-multiplication definitions and "
                 "canonical form (positive denominator, coprime); plus sampled operands up to 2^30 (i64), 2^14 (i32), 2^60 (i128) with "
                 "shared factors, checked on BigInt with a Bezout witness for coprimality. Recorded from the build with overflow checks and "
                 "from the optimised build. Non-trivial = every row / big event."),
        "assumptions": [
            "zero denominators and zero divisors are outside the quantifier; magnitudes stay below the overflow threshold of the type",
            "coprimality witnesses come from the harness's own extended Euclid; the specification verifies s*n + t*d = 1",
        ],
    },
    "sieve": {
        "module": "SieveTrace",
        "release": True,
        "also_debug": True,
        "exhaustive": True,
        "rule": ("I->S: Sieve::new(N) for EVERY N in 0..2000 (thorough 0..4000): the complete min_prime and is_prime tables and the prime "
                 "list compared by TLC with the tabulated arithmetic definitions (least divisor >= 2 by trial division); factorize(n) "
                 "through the real iterator for all n <= N at every 97th limit and for the top three n at every limit; every 61st (thorough 7th) "
                 "limit up to 140000 with sampled entries and the end of the prime list; N = 1e6, 2e6 "
                 "(thorough also 1e7): 2.6k-6k sampled n (primes, prime squares +-1, products of two large primes, the last 100 entries, "
                 "random) checked by trial division with the tabulated primes, pi(N) and sampled consecutive prime pairs (no prime "
                 "between). Recorded twice: from the optimised build and from a build with overflow checks. Non-trivial = every table entry."),
        "assumptions": [
            "limits 1e6 / 1e7 are sampled, not compared element by element (beyond TLC's throughput); pi(1e6) = 78498 and pi(1e7) = 664579 "
            "are taken as known constants",
        ],
    },
    "iter": {
        "also_release": True,
        "module": "IterTrace",
        "pre": iter_pre,
        "rule": ("S->I: TLC enumerates every sequence over a 3-letter alphabet up to length 6 (thorough 7) and every arrangement of up to 6 "
                 "(thorough 8) distinct elements with the lexicographic successor the specification demands (declarative definition: least "
                 "greater arrangement; checked equal to the constructive one wherever both are evaluated), whole enumerations for all "
                 "multisets up to 5 letters / 6 distinct, and every cell of every grid up to 6x6 with its three neighbour lists; all "
                 "replayed on next_permutation (three element types), iter_permutations and the neighbour iterators. I->S: the complete "
                 "output of iter_submasks / iter_supermasks for all 256 masks of u8 and i8, all 16-bit masks with <= 4 (thorough 6) free "
                 "bits, and structured/random masks of the 32/64/128-bit and pointer-sized types with <= 8 (10) free bits, checked by TLC "
                 "(start, strict monotonicity as unsigned, sub/supermask of x, end value, length 2^free); next_permutation on 400 (3000) "
                 "sequences of length 8..47 over 1..4 letters (long non-increasing tails that repeat the pivot's value) against the "
                 "constructive definition; the neighbour iterators on implicit grids based at 2^31-3 .. isize::MAX-9 (coordinates relative to "
                 "the base). Both build profiles. Non-trivial = every element."),
        "assumptions": [
            "16-bit masks are covered up to a popcount bound (3^16 elements are beyond TLC's throughput); wider types sampled (seeded)",
        ],
    },
    "tensor": {
        "module": "TensorTrace",
        "pre": tensor_pre,
        "exhaustive": True,
        "rule": ("S->I: TLC enumerates EVERY shape of rank 1..4 with extents 1..4 (thorough 1..5; 340 / 780 shapes) and emits per shape every "
                 "valid multi-index with its row-major offset (Flat checked by TLC to be a bijection onto 0..count-1), every index out of "
                 "range in exactly one dimension by 0..2 (flagged when its flattened offset is still inside the storage) and, per dimension, components "
                 "far beyond the extent (usize::MAX, 2^63 +- extent, 2^62, 2^32, and values whose product with the stride wraps around 2^64 into the "
                 "storage), replayed on the build with overflow checks and on the optimised build, zero-extent and "
                 "length-mismatch constructor calls, every other shape of the same rank and element count, and the text rendering; the "
                 "harness checks from_vec / from_slice / new+index_mut, get_index, iter, Index and IndexMut panics, constructor rejections, "
                 "equality and != as its negation, Writable output and Tensor::read. I->S: IO round trips of random shapes (extents <= 5) and values through the "
                 "real Writer and Reader (chunked source), judged by TensorTrace. Non-trivial = shape of rank >= 2."),
        "assumptions": [
            "element type i64; a panic is observed with catch_unwind",
        ],
    },
    "rand": {
        "module": "RandTrace",
        "release": True,
        "also_debug": True,
        "rule": ("I->S through the public trait method gen_from_u64 with ADVERSARIAL raw outputs (0, 1, 2^64-1, 2^53 and 2^63 neighbourhoods, "
                 "multiples of the range length +-1, the largest multiple below 2^64): every (start, end) pair of i8 and u8 (quick: every "
                 "second start) in all five range forms, boundary ranges (length 1, 2^k, MAX, full width, MIN+1..=MAX) of the 16/32/64-bit and "
                 "pointer-sized types; reachability of every value of small ranges; twenty half-open float ranges (incl. denormal, huge, "
                 "one-ulp-wide, and finite ranges whose length overflows to infinity) x 124 raws (incl. those whose 53-bit fraction is zero) compared in IEEE order on bit patterns; equal-seed / copied generators; shuffles as permutations; "
                 "arrangement histograms of 1..k (k <= 5, thorough 6) over 1e5 (5e5) random seeds: all k! reached, each within 30% of the "
                 "mean (> 7 sigma); 4096-draw sequences from ranges of length 2,3,4,8,16,256 must have no period <= 64. Non-trivial = every "
                 "draw. Recorded from the optimised build and from a build with overflow checks."),
        "assumptions": [
            "statistical clauses use fixed thresholds whose false-alarm probability on a correct implementation is < 1e-9 per run",
            "seeds for the histograms are random 64-bit values from the harness's own generator (seeded by VERIF_SEED)",
        ],
    },
    "geometry": {
        "module": "GeometryTrace",
        "release": True,
        "rule": ("I->S: exhaustive lattice configurations -- circle pairs with centres in a 9x9 (thorough 11x11) window and radii 1..5 (6), "
                 "circles against lines through two lattice points with primitive directions, line pairs, points against circles and lines; "
                 "every tangency through Pythagorean triples is among them -- plus dyadic real-valued configurations (multiples of 2^-10, "
                 "magnitude 1000), nearly axis-parallel lines (multiples of 2^-20; normalised small coefficient between 1e-9 and 1e-6) crossed "
                 "by ordinary lines and circles in either argument order, and constructed outer/inner tangencies, tangent lines and 2^-29..2^-26 shallow overlaps at arbitrary "
                 "dyadic positions. The specification decides the exact kind by comparing squared integers (BigInt at scale 2^-30) and "
                 "demands it when the configuration is exactly tangent or >= 2^-20 (two circles) resp. 2^-26 (circle and line, where the "
                 "library's measure is the plain distance) away from a boundary between kinds (not judged in "
                 "between: bands wider than the library's 1e-9); large circles against lines 1e-7 inside / outside tangency are constructed, and checks EVERY returned point against both primitives with "
                 "tolerance 1e-7. Non-trivial = every configuration."),
        "assumptions": [
            "all generated coordinates are dyadic rationals, hence exact both as f64 and as integers of the specification; non-dyadic inputs "
            "are not covered",
            "returned points are logged rounded to 2^-30; the tolerance carries that unit of slack",
            "the specification is an exact oracle on representable configurations, not a model of floating-point error",
        ],
    },
    "f80": {
        "module": "F80Trace",
        "release": True,
        "rule": ("I->S: + - * / (value and assigning forms) and neg on pairs from a boundary set of f64 bit patterns (signed zeros, "
                 "subnormals, powers of two and neighbours, long carry chains, huge/tiny exponents, infinities, NaN; every third pair, the "
                 "thorough tier on a set extended by 68 more powers of two and their neighbours), random bit patterns and chains of 2-4 operations whose intermediate results use all 64 "
                 "significand bits; f64 -> f80 -> f64 on boundary and random patterns; f80 -> f64 narrowing of results inside the normal f64 "
                 "range; all nine relations (<, <=, >, >=, partial_cmp, ==, min, max, abs) on pairs of the boundary set extended with values "
                 "that need 64 bits and with intermediate results no f64 can hold (1e-600, 1e600, 2^-1076, 1 - 2^-64, just above f64::MAX). "
                 "Operands and results are decoded from their bytes by bit slicing; TLC checks the round-to-nearest-even "
                 "inequality on exact BigNat integers (no division) and the IEEE case analysis. Non-trivial = every event."),
        "assumptions": [
            "x87 only (the crate is x86-only); precision control is the Linux default (64-bit significand)",
            "f80 denormals / values outside the normal f64 range for narrowing are not judged (they cannot arise from 2-4 operations on f64 operands)",
            "for min/max with a NaN operand the property is silent: either operand is accepted",
        ],
    },
    "fft": {
        "module": "FftTrace",
        "pre": fft_pre,
        "release": True,
        "rule": ("MC: FftImpl (B) -- plan growth by doubling, stride-shared twiddle table, shifted bit reversal, forward/inverse butterflies, "
                 "the packing of two real inputs and the half-size inverse, transcribed over the exact field GF(8191^2) -- refines the "
                 "convolution spec in every reachable plan state for all length pairs up to 9 (thorough 17); a model that ignores the "
                 "stride is rejected. S->I: TLC enumerates all call histories of <= 2 (thorough 3) calls (multiply, multiply_into on a non-zero destination, "
                 "fft + pointwise product + fft_inv, and fft_inv_into on a longer non-zero destination) over length pairs realising every transform size 2..32 in every grow/shrink order, and "
                 "every length pair 1..17 x 1..17 as a call after a large one, with the integer convolutions the specification demands; "
                 "replayed on ONE reused FFT<f64> and FFT<f32> object per history and on fresh objects (release and debug builds). "
                 "I->S: 70 (260) calls on one reused object per float type with sizes up to 2^12 (2^16) in big->small->big, 2^k, 2^k+1 and "
                 "lopsided sequences, positive / negative / mixed / alternating coefficients with max^2 * max(len) <= 1e12 (f64) resp. 1e3 "
                 "(f32); every checked output coefficient (all for outputs <= 96; otherwise both ends, neighbourhoods of powers of two and random indices whose sums have <= 300 terms) recomputed "
                 "exactly by FftTrace on 10-bit halves. Non-trivial = history of >= 2 calls / every recorded call."),
        "assumptions": [
            "the driver stays inside max^2 * max(len a, len b) <= 1e12, a subset of the property's max^2 * min(len) formula (the crate's table "
            "is for equal lengths; rounding error scales with the product of the 2-norms): no alarm can come from outside the published envelope",
            "long outputs are checked on a sample of indices (sound: a subset of the coefficients)",
            "the spec contributes the exact oracle and the history structure, not a floating-point error analysis; f32 on the 100x reduced envelope",
        ],
    },
}


def build(ctx, v=None):
    return ctx.build()


def run(ctx, comp):
    sp = SPECS[comp]
    ctx.rule = sp["rule"]
    binary = ctx.build(release=sp.get("release", False))
    if sp.get("pre"):
        sp["pre"](ctx, binary)
    trace, info = ctx.record(binary, comp)
    ctx.sample_trace(trace, k=2)
    ctx.validate(comp, sp["module"], ctx.cfg(comp, sp["module"] + ".cfg"), trace, runs=info.get("runs", 1), timeout=ctx.q(1200, 6000),
                 keyfn=lambda m: key(comp, m), heap=sp.get("heap", "12g"))
    ctx.extra["record_info"] = info
    ctx.distinct_nontrivial += info.get("nontrivial", info.get("events", 0))
    if sp.get("also_debug") or sp.get("also_release"):
        # the same recording from the other build profile: with overflow checks and debug assertions (what `cargo test`
        # runs) resp. optimised without them (what a contest submission runs)
        other_release = bool(sp.get("also_release"))
        tag = "release" if other_release else "debug"
        other = ctx.build(release=other_release)
        trace2, info2 = ctx.record(other, comp, stage="record-%s-build" % tag, name="trace-record-%s.ndjson" % tag)
        ctx.validate(comp, sp["module"], ctx.cfg(comp, sp["module"] + ".cfg"), trace2, stage="validate-%s-build" % tag, runs=info2.get("runs", 1),
                     timeout=ctx.q(1200, 6000), keyfn=lambda m: key(comp, m), heap=sp.get("heap", "12g"))
    ctx.assumptions += ["TLC 1.8 evaluates the TLA+ specifications correctly"] + sp["assumptions"]
    if sp.get("exhaustive"):
        ctx.exhaustive = True


def key(comp, m):
    got = m.get("got") or {}
    if not isinstance(got, dict):
        return "%s: rejected" % comp
    ev = got.get("ev", "?")
    op = got.get("op", got.get("fn", ev))
    if "panic" in got:
        return "%s.%s: panic" % (comp, op)
    return "%s.%s: differs from the definition" % (comp, op)


def validate_segment(ctx, v, trace):
    comp = v["component"]
    sp = SPECS[comp]
    ctx.validate(comp, sp["module"], ctx.cfg(comp, sp["module"] + ".cfg"), trace, keyfn=lambda m: key(comp, m))
