"""C20 — rlib_lambda::rec_lambda! (spec/lambda).  Programs are the inputs: TLC enumerates every macro shape with the
meaning the specification defines; a generator writes one Rust test per shape, compiled and run against /repo."""
import json
import os
import re
import vlib
from vlib import ToolError

GEN = os.path.join(vlib.VERIF, "harness_gen")


def build(ctx, v=None):
    return None


def shape_name(c):
    caps = "".join("r" if x == "ref" else "m" for x in c["caps"]) or "none"
    return "shape_%s_a%d_%s_%s%s" % (caps, c["nargs"], "ret" if c["ret"] else "unit", "comma" if c["comma"] else "plain",
                                     "_reftag" if c.get("reftag") else "")


def rust_for(c):
    """one #[test]: the macro invoked with exactly this shape, and the equivalent hand-written recursive fn"""
    k = len(c["caps"])
    n = c["nargs"]
    ret = c["ret"]
    caps = c["caps"]
    shared = [i for i in range(k) if caps[i] == "ref"]
    muts = [i for i in range(k) if caps[i] == "mut"]
    args = ["a%d" % (j + 1) for j in range(n)]
    reftag = bool(c.get("reftag"))
    tgx = ["tg"] if reftag else []      # passed through unchanged by every recursive call
    ssum = " + ".join("*c%d" % i for i in shared) or "0"
    first = ("*c%d" % shared[0]) if shared else "1"
    sep = "," if c["comma"] else ""

    def call(name, a, macro):
        inner = ", ".join(list(a) + tgx)
        if macro:
            return "%s!(%s%s)" % (name, inner, sep)
        extra = "".join(", c%d" % i for i in range(k))
        return "%s(%s%s)" % (name, inner, extra)

    rot = [args[0] + " - 1"] + (args[2:] + [args[1]] if n > 2 else args[1:])
    dec = [args[0] + " - 2"] + args[1:]

    def body(name, macro):
        b = []
        b.append("let s: i64 = %s;" % ssum)
        # a free function that has the very name of the recursion macro (macros and functions live in different namespaces)
        b.append("let hv: i64 = rec(a1);")
        base_mut = " ".join("*c%d += 1;" % i for i in muts)
        if ret:
            b.append("if a1 <= 0 { %s return s + %s%s; }" % (base_mut, args[-1], " + *tg" if reftag else ""))
        else:
            b.append("if a1 <= 0 { %s return; }" % base_mut)
        for i in muts:
            b.append("*c%d = 2 * *c%d + a1 + s + hv;" % (i, i))
        b.append("let first: i64 = %s;" % first)
        if ret:
            b.append("let r1 = %s;" % call(name, rot, macro))
            b.append("let r2 = if a1 %% 2 == 0 { %s } else { 0 };" % call(name, dec, macro))
            if n >= 2:
                # a recursive call whose last argument is itself a recursive call (both hit the base case at once)
                base0 = ["0"] + args[1:]
                inner = call(name, base0, macro)
                b.append("let r3 = %s;" % call(name, ["0"] + args[1:-1] + [inner], macro))
                b.append("r1 + 3 * r2 + a1 * first + hv + r3")
            else:
                b.append("r1 + 3 * r2 + a1 * first + hv")
        else:
            b.append("%s;" % call(name, rot, macro))
            b.append("if a1 %% 2 == 0 { %s; }" % call(name, dec, macro))
            b.append("let _ = first;")
        return "\n                ".join(b)

    capdecl = ", ".join("c%d: %s" % (i, "&i64" if caps[i] == "ref" else "&mut i64") for i in range(k))
    argdecl = ", ".join(["%s: i64" % a for a in args] + (["tg: &i64"] if reftag else []))
    rty = " -> i64" if ret else ""
    lines = []
    lines.append("#[test]")
    lines.append("#[allow(unused_mut, unused_variables, unused_assignments, clippy::all)]")
    lines.append("fn %s() {" % shape_name(c))
    lines.append("    fn rec(x: i64) -> i64 { x % 3 }")
    # the hand-written equivalent
    fn_caps = "".join(", c%d: %s" % (i, "&i64" if caps[i] == "ref" else "&mut i64") for i in range(k))
    lines.append("    fn explicit(%s%s)%s {" % (argdecl, fn_caps, rty))
    lines.append("                " + body("explicit", False))
    lines.append("    }")
    for run in c["runs"]:
        vals = ", ".join(str(x) for x in run["args"])
        lines.append("    {")
        for i in range(k):
            lines.append("        let %sc%d: i64 = %d;" % ("mut " if caps[i] == "mut" else "", i, c["init"][i]))
            lines.append("        let %se%d: i64 = %d;" % ("mut " if caps[i] == "mut" else "", i, c["init"][i]))
        lines.append("        {")
        lines.append("            let mut f = rlib_lambda::rec_lambda!(rec, |%s| {" % capdecl)
        lines.append("                |%s|%s {" % (argdecl, rty))
        lines.append("                " + body("rec", True))
        lines.append("                }")
        lines.append("            });")
        if reftag:
            for (nm, rv) in (("t1", run["ret"]), ("t2", run["ret2"])):
                lines.append("            {")
                lines.append("                let %s: i64 = 7;" % nm)
                if ret:
                    lines.append("                let got = f(%s, &%s);" % (vals, nm))
                    lines.append("                assert_eq!(got, %d, \"return value, args (%s)\");" % (rv, vals))
                else:
                    lines.append("                f(%s, &%s);" % (vals, nm))
                lines.append("            }")
        elif ret:
            lines.append("            let got = f(%s);" % vals)
            lines.append("            assert_eq!(got, %d, \"return value, args (%s)\");" % (run["ret"], vals))
        else:
            lines.append("            f(%s);" % vals)
        lines.append("        }")
        ex_caps = "".join(", %se%d" % ("&" if caps[i] == "ref" else "&mut ", i) for i in range(k))
        if reftag:
            for (nm, rv) in (("u1", run["ret"]), ("u2", run["ret2"])):
                lines.append("        {")
                lines.append("            let %s: i64 = 7;" % nm)
                if ret:
                    lines.append("            let want = explicit(%s, &%s%s);" % (vals, nm, ex_caps))
                    lines.append("            assert_eq!(want, %d, \"specification vs hand-written fn\");" % rv)
                else:
                    lines.append("            explicit(%s, &%s%s);" % (vals, nm, ex_caps))
                lines.append("        }")
        elif ret:
            lines.append("        let want = explicit(%s);" % (vals + ex_caps))
            lines.append("        assert_eq!(want, %d, \"specification vs hand-written fn\");" % run["ret"])
        else:
            lines.append("        explicit(%s);" % (vals + ex_caps))
        final_caps = run["caps2"] if reftag else run["caps"]
        for i in range(k):
            lines.append("        assert_eq!(c%d, %d, \"captured variable %d after the call(s), args (%s)\");" % (i, final_caps[i], i, vals))
            lines.append("        assert_eq!(e%d, %d, \"hand-written fn: captured variable %d\");" % (i, final_caps[i], i))
        lines.append("    }")
    lines.append("}")
    return "\n".join(lines)


def run(ctx):
    ctx.level = "translation_validation"
    ctx.rule = ("programs = macro invocations: TLC enumerates all 992 shapes (0..4 captures in every &/&mut pattern and order, 1..4 "
                "arguments, each also with one more reference-typed argument and two calls of the same closure; thorough: 0..6 captures and 1..6 arguments, 6096 shapes, with/without return type, recursive calls with/without trailing comma) and computes, by the explicit recursion "
                "that DEFINES the canonical body's meaning, the return value and the final captured variables for three argument vectors; "
                "one generated #[test] per shape invokes rec_lambda! with exactly that shape (body reads every shared capture, mutates "
                "every mutable capture, calls a free helper that has the recursion macro's own name, branches on the arguments, recurses twice with "
                "rotated / decremented arguments and once with a recursive call nested in an argument) and asserts the "
                "specification's values, next to a hand-written recursive fn; compiled and run against /repo. Non-trivial = shape with at "
                "least one capture.")
    cfg = ctx.cfg("lambda", "RecLambda.cfg", {"MaxCaps": ctx.q("4", "6"), "MaxArgs": ctx.q("4", "6")})
    cases_file, n = ctx.gen("lambda", "RecLambda", cfg, "shapes.ndjson", stage="gen", workers=4, timeout=600, coverage=False)
    cases = []
    with open(cases_file) as f:
        for line in f:
            cases.append(json.loads(json.loads(line)))
    cases.sort(key=shape_name)
    names = [shape_name(c) for c in cases]
    assert len(set(names)) == len(names)
    remaining = list(cases)
    failing_compile = {}
    results = {}
    for attempt in range(10):
        if not remaining:
            break
        src = ["// generated by bin/comp/lambda.py from spec/lambda/RecLambda.tla -- do not edit", ""]
        line_of = []
        for c in remaining:
            start = len(src) + 1
            code = rust_for(c)
            src += code.split("\n")
            src.append("")
            line_of.append((start, len(src), shape_name(c)))
        os.makedirs(os.path.join(GEN, "tests"), exist_ok=True)
        open(os.path.join(GEN, "tests", "shapes.rs"), "w").write("\n".join(src) + "\n")
        rc, out, dt = vlib.sh(["cargo", "test", "--offline", "--test", "shapes", "--", "--test-threads", "8"], cwd=GEN, timeout=3000,
                              env={"CARGO_NET_OFFLINE": "true"})
        ctx.log("cargo test of %d generated programs: rc=%d in %.1fs" % (len(remaining), rc, dt))
        open(ctx.path("cargo-%d.log" % attempt), "w").write(out)
        tests = re.findall(r"^test (shape_\w+) \.\.\. (ok|FAILED)", out, re.M)
        if tests:
            for nm, st in tests:
                results[nm] = st
            msgs = {}
            for m in re.finditer(r"---- (shape_\w+) stdout ----\n(.*?)(?=\n---- |\nfailures:)", out, re.S):
                msgs[m.group(1)] = m.group(2)[:600]
            for nm, st in tests:
                if st == "FAILED":
                    c = [x for x in cases if shape_name(x) == nm][0]
                    ctx.violations.append({"key": "lambda: closure differs from explicit recursion [%s]" % shape_key(c), "stage": "run", "kind": "program",
                                           "component": "lambda", "detail": {"case": c, "shape": nm, "test_output": msgs.get(nm, ""), "program": rust_for(c)}})
            break
        # a generated program that dies (unbounded recursion): attribute to its test thread, drop it and run the rest again
        died = set(re.findall(r"thread '(shape_\w+)'[^\n]* has overflowed its stack", out))
        if died and not re.search(r"--> tests/shapes\.rs:(\d+):", out):
            for nm in died:
                c = [x for x in cases if shape_name(x) == nm][0]
                ctx.violations.append({"key": "lambda: closure differs from explicit recursion [%s]" % shape_key(c), "stage": "run", "kind": "program",
                                       "component": "lambda", "detail": {"case": c, "shape": nm, "test_output": "stack overflow (unbounded recursion)", "program": rust_for(c)}})
            remaining = [c for c in remaining if shape_name(c) not in died]
            continue
        # compile error: attribute by source line, drop those shapes and try again
        bad = set()
        for m in re.finditer(r"--> tests/shapes\.rs:(\d+):", out):
            ln = int(m.group(1))
            for (a, b, nm) in line_of:
                if a <= ln < b:
                    bad.add(nm)
        if not bad:
            raise ToolError("generated programs do not compile and the error cannot be attributed to a shape:\n" + out[-3000:])
        first_err = re.search(r"error(\[E\d+\])?: .*", out)
        for nm in bad:
            failing_compile[nm] = first_err.group(0) if first_err else "compile error"
        remaining = [c for c in remaining if shape_name(c) not in bad]
        ctx.log("%d shape(s) do not compile: %s" % (len(bad), sorted(bad)[:5]))
    for nm, err in failing_compile.items():
        c = [x for x in cases if shape_name(x) == nm][0]
        ctx.violations.append({"key": "lambda: macro shape does not compile [%s]" % shape_key(c), "stage": "compile", "kind": "program",
                               "component": "lambda", "detail": {"case": c, "shape": nm, "rustc": err, "program": rust_for(c)}})
    ok = sum(1 for v in results.values() if v == "ok")
    ctx.extra["programs"] = len(cases)
    ctx.extra["programs_passed"] = ok
    ctx.extra["disagreements_checked"] = len(cases) * 3
    ctx.traces += len(results)
    ctx.replay_cases += len(results)
    ctx.replay_checks += 3 * len(results)
    ctx.distinct_nontrivial = sum(1 for c in cases if c["caps"])
    ctx.exhaustive = True
    ctx._sample({"shape": shape_name(cases[200]), "spec_case": cases[200], "generated_program": rust_for(cases[200])})
    ctx.stages.append({"stage": "programs", "kind": "S->I (generated programs compiled and run)", "programs": len(cases), "passed": ok,
                       "failed_to_compile": len(failing_compile)})
    ctx.assumptions += [
        "TLC 1.8 evaluates the TLA+ specification correctly; rustc compiles the generated tests faithfully",
        "one canonical body per shape (it exercises reads of shared captures, writes of mutable captures, argument branching, two "
        "recursive calls); element type i64",
    ]


def shape_key(c):
    return "captures=%s args=%d ret=%s trailing_comma=%s%s" % ("".join("&" if x == "ref" else "M" for x in c["caps"]) or "-", c["nargs"], c["ret"], c["comma"],
                                                               " ref_arg=True" if c.get("reftag") else "")


def validate_segment(ctx, v, trace):
    raise ToolError("C20 violations are replayed by re-running the check")
