"""C03 / C16 / C17 — rlib_treap (spec/treap)."""
import os
import shutil
import vlib
from vlib import ToolError

ACTIONS = ["DoFromItem", "DoMerge", "DoSplitAt", "DoSplitBy", "DoInsertAt", "DoRemoveAt", "DoRootModify", "DoFirst", "DoLast", "DoCollect"]


def build(ctx, v=None):
    return ctx.build()


def mcgen(ctx, binary, replay=True):
    """exhaustive (A)+(B) exploration with every priority assignment; returns replay verdicts"""
    configs = ctx.q([("{1, 2}", "{1, 2, 3}", "5", "4"), ("{1, 2, 3}", "{1, 2}", "5", "4")][:2 if replay else 1],
                    [("{1, 2}", "{1, 2, 3}", "6", "4"), ("{1, 2, 3}", "{1, 2, 3}", "5", "4"), ("{1, 2}", "{1, 2}", "6", "5")])
    for i, (slots, prios, depth, maxel) in enumerate(configs):
        g = ctx.cfg("treap", "TreapGen.cfg", {"Slots": slots, "Prios": prios, "Depth": depth, "MaxElems": maxel}, name="TreapGen_%d.cfg" % i)
        cases, n = ctx.gen("treap", "TreapGen", g, "cases-%d.ndjson" % i, stage="mcgen-%d" % i, workers=8, timeout=ctx.q(900, 5000),
                           coverage=(i == 0), expect_actions=ACTIONS if i == 0 else None, heap="12g")
        if replay:
            v = ctx.replay(binary, "treap", cases, stage="replay-%d" % i)
            ctx.distinct_nontrivial += v["extra"].get("nontrivial_cases", 0)
        os.remove(cases)


def run(ctx, prop="C03"):
    if prop == "C03":
        return run_c03(ctx)
    if prop == "C16":
        return run_c16(ctx)
    return run_c17(ctx)


def run_c03(ctx):
    ctx.rule = ("MC/GEN: all histories of <= Depth operations (from_item, merge, split_at, split_by, insert_at, remove_at, root modify "
                "with non-commuting assign/add, first, last, collect) over <= MaxElems elements in 2-3 live treaps with EVERY priority "
                "assignment from a 2-3 value set (ties included) on TreapImpl (B) in lockstep with the sequence spec Treap (A); "
                "invariants: sequence refinement of all queries, aggregate = fold at every subtree root, heap order. One replay case "
                "per distinct (B)-state, priorities imposed on the real nodes through the public fields. Non-trivial = history with a "
                "lazy root modification and >= 3 operations. I->S: 3.5k-20k operation runs on up to 8 live treaps (sizes to 2000, the "
                "crate's own priorities, 20% range-modify/aggregate compositions) judged by TreapTrace (A).")
    binary = build(ctx)
    mcgen(ctx, binary)
    ctx.exhaustive = True
    trace, info = ctx.record(binary, "treap")
    ctx.sample_trace(trace, k=5)
    ctx.validate("treap", "TreapTrace", ctx.cfg("treap", "TreapTrace.cfg"), trace, runs=info.get("runs", 1), timeout=ctx.q(900, 5000), keyfn=trace_key)
    ctx.extra["record_info"] = info
    ctx.assumptions += [
        "TLC 1.8 evaluates the TLA+ specifications correctly",
        "TItem (element in Z_5, order-sensitive hash + size aggregate, lazy affine modification) is a harness-defined lawful item "
        "implementing the public TreapItem/TreapItemSized traits, mirrored by the node record of TreapImpl.tla",
        "in the replay direction insert_at is performed as the crate's split_at/merge composition with the priority chosen by the "
        "specification; the crate's own insert_at/from_item (random priorities) are exercised in the trace direction",
    ]


def run_c16(ctx):
    ctx.rule = ("Design: HeapOrdered is an invariant of TreapImpl (B) in the exhaustive exploration shared with C03 (every priority "
                "assignment). Real code: (i) whole trees of <= 64 nodes after insert/remove/split-swap histories are handed to the spec, "
                "which checks heap order along every edge in one direction and the height bound on the structure; (ii) adversarial "
                "histories (sorted appends, front insertion, alternating ends, split-and-swap rotations, delete-min/insert-max churn, "
                "random) at n = 1e4, 1e5 (thorough 1e6): the harness walks the public left/right/priority fields, the spec checks "
                "height <= 5*bitlen(n+1)+20 and zero edges against the direction. Non-trivial = checkpoint with n >= 1000 or whole "
                "tree with >= 8 nodes.")
    binary = ctx.build(release=True)
    mcgen(ctx, binary, replay=False)
    trace, info = ctx.record(binary, "treap", mode="record-shape", stage="record-shape")
    ctx.sample_trace(trace, k=3, stage="record-shape")
    ctx.validate("treap", "TreapTrace", ctx.cfg("treap", "TreapTrace.cfg"), trace, stage="validate-shape", runs=info.get("runs", 1),
                 timeout=ctx.q(900, 3000), keyfn=trace_key)
    import json
    nt = 0
    with open(trace) as f:
        for line in f:
            e = json.loads(line)
            if (e.get("ev") == "ckpt" and e["n"] >= 1000) or (e.get("ev") == "shape" and len(e["pre"]) >= 8):
                nt += 1
    ctx.distinct_nontrivial = nt
    ctx.extra["record_info"] = info
    ctx.assumptions += [
        "the height bound 5*log2(n+1)+20 is over-approximated by 5*bitlen(n+1)+20 (the check never demands more than the property); "
        "a correctly randomised treap exceeds it with probability < 1e-15",
        "heights are counted in edges by an iterative walk over the public node fields; priorities are compared after dropping the "
        "lowest bit for the whole-tree events (TLC integers are 32-bit), which preserves the non-strict order along an edge",
    ]


def run_c17(ctx):
    ctx.rule = ("Design: TreapRng.tla model-checked for 3 threads x 3 draws (thorough: x 5 draws, 2.4M states): PerThread and SharedAtomic satisfy RaceFree, the Racy design "
                "(read and write of the generator state as separate steps = unsynchronised static mut) must be rejected by TLC. Real code: "
                "rounds of K threads released by a barrier, each creating nodes through the safe constructors and operating on its own "
                "treap; per-thread priority streams and treap observables recorded; the reference stream comes from the same code on one "
                "thread in a fresh process. TreapRaceTrace accepts iff results equal the solo results and the streams are explained by "
                "PerThread (prefix of one of the reference streams: stream i is what the (i+1)-th thread to create a node observes alone) or SharedAtomic (partition of a reference prefix, walked value by value). "
                "Plus 200 (thorough 500) rounds of 16 fresh threads released together with 4 draws each (the moment the per-thread generators come into being), "
                "where additionally no two threads may be explainable only by the very same reference stream. Non-trivial = a thread stream of >= 1000 draws. Schedules are sampled by stress, not enumerated: the check can miss a "
                "race, it cannot invent one.")
    dev = ctx.build()
    rel = ctx.build(release=True)
    # design level
    for design, must_hold in (("PerThread", True), ("SharedAtomic", True), ("Racy", False)):
        cfg = ctx.cfg("treap", "TreapRng.cfg", {"Design": '"%s"' % design, "Draws": ctx.q("3", "5")}, name="TreapRng_%s.cfg" % design)
        if must_hold:
            ctx.mc("treap", "TreapRng", cfg, stage="mc-" + design, workers=4, timeout=600)
        else:
            r = ctx.tlc("treap", "TreapRng", cfg, "mc-" + design, workers=4, timeout=600, allow_fail=True, coverage=False)
            if r["ok"] or "Invariant RaceFree is violated" not in r["out"]:
                raise ToolError("negative test: TLC did not reject the racy generator design")
            ctx.stages.append({"stage": "mc-Racy", "kind": "negative test: racy design rejected by TLC", "wall_s": r["wall_s"]})
            ctx.log("mc-Racy: racy design rejected by TLC as expected")
    # real threads
    rounds = ctx.q([(rel, 8, 4000), (dev, 8, 3000), (rel, 16, 2000), (rel, 2, 8000), (rel, 12, 3000), (dev, 4, 4000), (rel, 8, 6000), (rel, 3, 8000)],
                   [(rel, 8, 20000), (dev, 8, 10000), (rel, 16, 10000), (rel, 2, 40000), (rel, 12, 15000), (dev, 16, 5000), (rel, 4, 30000), (rel, 16, 15000)])
    if ctx.thorough:
        # the same eight configurations five times over with other seeds: schedules are sampled, more samples = more schedules
        rounds = rounds * 5
    nontrivial = 0
    for i, (binary, threads, draws) in enumerate(rounds):
        solo = ctx.path("solo-%d.ndjson" % i)
        race = ctx.path("race-%d.ndjson" % i)
        ctx.drv(binary, ["treap", "record-solo", "--n", str(threads * draws), "--streams", str(threads), "--per", str(draws), "--out", solo])
        info = ctx.drv(binary, ["treap", "record-race", "--seed", str(ctx.seed + i), "--threads", str(threads), "--draws", str(draws), "--out", race])
        trace = ctx.path("trace-race-%d.ndjson" % i)
        with open(trace, "w") as out:
            for p in (solo, race):
                with open(p) as f:
                    shutil.copyfileobj(f, out)
        os.remove(solo)
        os.remove(race)
        if i == 0:
            ctx._sample({"direction": "impl->spec", "stage": "race-0", "threads": threads, "draws_per_thread": draws,
                         "first_event_head": open(trace).readline()[:300]})
        per = ctx.validate("treap", "TreapRaceTrace", ctx.cfg("treap", "TreapRaceTrace.cfg", {"Design": '"PerThread"'}, name="Race_PerThread.cfg"),
                           trace, stage="race-%d-PerThread" % i, runs=threads, keyfn=race_key, record_violations=False, need_note="streams judged")
        results_bad = [m for m in per if "results" in m["key"]]
        streams_bad = [m for m in per if "results" not in m["key"]]
        ctx.violations += results_bad
        if streams_bad:
            sh = ctx.validate("treap", "TreapRaceTrace", ctx.cfg("treap", "TreapRaceTrace.cfg", {"Design": '"SharedAtomic"'}, name="Race_Shared.cfg"),
                              trace, stage="race-%d-SharedAtomic" % i, runs=0, keyfn=race_key, record_violations=False, need_note="streams judged")
            sh_bad = [m for m in sh if "results" not in m["key"]]
            if sh_bad:
                # explained by neither lawful design
                v = sh_bad[0]
                v["detail"]["per_thread_design"] = [m["detail"]["event"] for m in streams_bad[:4]]
                v["detail"]["replay_note"] = "schedule-dependent: re-run the check; threads=%d draws=%d build=%s" % (threads, draws, "release" if binary == rel else "debug")
                ctx.violations.append(v)
                os.replace(trace, ctx.path("violating-race-trace.ndjson"))
                continue
        nontrivial += threads if draws >= 1000 else 0
        os.remove(trace)
    # the moment per-thread generators come into being: many rounds of fresh threads released together, a few draws each
    rounds_n, thr, per = ctx.q((200, 16, 4), (500, 16, 4))
    # (plus rounds // 4 groups of three threads with staggered lifetimes, recorded by the same command)
    n_streams = rounds_n * thr + 3 * max(rounds_n // 4, 8)
    for j, binary in enumerate((rel, dev)):
        solo = ctx.path("starts-solo-%d.ndjson" % j)
        race = ctx.path("starts-race-%d.ndjson" % j)
        ctx.drv(binary, ["treap", "record-solo-streams", "--streams", str(n_streams), "--per", str(per), "--out", solo])
        ctx.drv(binary, ["treap", "record-starts", "--rounds", str(rounds_n), "--threads", str(thr), "--per", str(per), "--out", race])
        trace = ctx.path("trace-starts-%d.ndjson" % j)
        with open(trace, "w") as out:
            for q in (solo, race):
                with open(q) as f:
                    shutil.copyfileobj(f, out)
        os.remove(solo)
        os.remove(race)
        bad = ctx.validate("treap", "TreapStartsTrace", ctx.cfg("treap", "TreapStartsTrace.cfg"), trace, stage="starts-%d" % j, runs=n_streams,
                           keyfn=race_key, record_violations=False, need_note="streams judged", timeout=ctx.q(900, 3600))
        for v in bad:
            v["detail"]["replay_note"] = "schedule-dependent: re-run the check; %d rounds of %d fresh threads x %d draws, build=%s" % (rounds_n, thr, per, "release" if binary == rel else "debug")
        ctx.violations += bad
        if bad:
            os.replace(trace, ctx.path("violating-starts-trace-%d.ndjson" % j))
        else:
            os.remove(trace)
    ctx.distinct_nontrivial = nontrivial
    ctx.assumptions += [
        "real thread schedules are sampled (barrier-released stress on 16 cores), not enumerated; enumeration exists for the TLA+ design only",
        "the reference stream is the real code run on one thread in a fresh process",
        "data races as undefined behaviour at the memory-model level are outside TLA+ (Miri would be the tool); the check observes their "
        "effect on the priority streams",
    ]


def race_key(m):
    got = m.get("got") or {}
    if isinstance(got, dict) and got.get("ev") == "result":
        return "treap.threads: results differ from the same operations run alone"
    return "treap.threads: priority streams not explained by any race-free generator design"


def trace_key(m):
    got = m.get("got") or {}
    ev = got.get("ev", "?") if isinstance(got, dict) else "?"
    if isinstance(got, dict) and "panic" in got:
        return "treap: panic"
    if ev == "ckpt" or ev == "shape":
        want = m.get("want")
        if isinstance(want, dict) and "height_bound" in want:
            return "treap.shape: height exceeds 5*log2(n+1)+20"
        return "treap.shape: priorities not heap-ordered"
    if ev == "remove_at":
        return "treap.remove_at: wrong element"
    names = {"agg": "root aggregate"}
    return "treap.%s: differs from the sequence" % names.get(ev, ev)


def validate_segment(ctx, v, trace):
    ctx.validate("treap", "TreapTrace", ctx.cfg("treap", "TreapTrace.cfg"), trace, keyfn=trace_key)
