"""C01 / C02 — rlib_segtree::Segtree (spec/segtree)."""

ACTIONS = ["DoSet", "DoModify", "DoAsk", "DoLb", "DoLbRev", "DoRenew"]

# (algebra, sizes, depth, scalars) per tier
QUICK = [
    ("hashaff", "{1, 2, 3}", "3", "{0, 1}", "FALSE"),
    ("hashaff", "{2, 3}", "2", "{0, 1}"),
    ("hashaff", "{4}", "2", "{0, 1}", "FALSE"),
    ("hashaff", "{5}", "1", "{0, 1}"),
    ("pair_hashaff_sumaff", "{2, 3}", "2", "{0, 1}"),
    ("hashflip", "{3, 4}", "3", "{0, 1}"),
    ("sumadd", "{3}", "2", "{0, 1, 2}"),
    ("minadd", "{3}", "2", "{0, 2}"),
    ("maxadd", "{3}", "2", "{0, 2}"),
    ("pair_minadd_maxadd", "{3}", "2", "{0, 2}"),
    ("pair_pair_min_max_sum", "{3, 4}", "2", "{0, 1, 2}"),
    ("min", "{3}", "2", "{0, 1, 2}"),
    ("max", "{3}", "2", "{0, 1, 2}"),
    ("sum", "{3}", "2", "{0, 1, 2}"),
]
THOROUGH = [
    ("hashaff", "{1, 2, 3, 4}", "3", "{0, 1}", "FALSE"),
    ("hashaff", "{2, 3}", "3", "{0, 1}"),
    ("hashaff", "{5}", "2", "{0, 1}"),
    ("pair_hashaff_sumaff", "{2, 3, 4}", "2", "{0, 1}"),
    ("hashflip", "{2, 3, 4, 5}", "3", "{0, 1}"),
    ("sumadd", "{2, 3, 4}", "2", "{0, 1, 2}"),
    ("minadd", "{2, 3, 4}", "2", "{0, 1, 2}"),
    ("maxadd", "{2, 3, 4}", "2", "{0, 1, 2}"),
    ("pair_minadd_maxadd", "{3, 4}", "2", "{0, 2}"),
    ("pair_pair_min_max_sum", "{3, 4, 5}", "2", "{0, 1, 2}"),
    ("min", "{3, 5}", "2", "{0, 1, 2}"),
    ("max", "{3, 5}", "2", "{0, 1, 2}"),
    ("sum", "{3, 5}", "2", "{0, 1, 2}"),
]


def build(ctx, v=None):
    return ctx.build()


def run(ctx, focus="ask"):
    what = {"ask": "ask()/debug() aggregates", "lb": "lower_bound / lower_bound_rev results and the aggregates shown to the predicate"}[focus]
    ctx.rule = ("MC/GEN per algebra (hashaff = non-commutative hash under non-commuting affine maps, hashflip = the same summaries "
                "under one modifier of a zero-sized type, the six built-ins, three Combinator nestings): one construction (fill / slice / iterator, all fill sequences) + up to Depth operations "
                "(set, modify with every modifier, ask, both searches with every monotone predicate of the family, "
                "re-construction) on SegtreeImpl (B) in lockstep with Segtree (A); invariants: refinement of all queries in every "
                "state, predicate arguments exact, ancestor-pending structure, Default = identity. One replay case per distinct "
                "(B)-state with the full answer table; this check compares " + what + ". Non-trivial = history containing a "
                "range modify on n >= 2. I->S: random + phased histories on sizes 1..130 for all ten algebras judged by "
                "SegtreeTrace.")
    binary = build(ctx)
    for i, conf in enumerate(ctx.q(QUICK, THOROUGH)):
        alg, sizes, depth, scal = conf[:4]
        junk = conf[4] if len(conf) > 4 else "TRUE"
        g = ctx.cfg("segtree", "SegtreeGen.cfg", {"AlgName": '"%s"' % alg, "Sizes": sizes, "Depth": depth, "Scalars": scal, "UseJunk": junk},
                    name="SegtreeGen_%d.cfg" % i)
        cases, n = ctx.gen("segtree", "SegtreeGen", g, "cases-%d.ndjson" % i, stage="mcgen-%d-%s" % (i, alg), workers=8,
                           timeout=ctx.q(900, 5000), heap="12g",
                           coverage=(alg == "sumadd"), expect_actions=ACTIONS if alg == "sumadd" else None)
        v = ctx.replay(binary, "segtree", cases, stage="replay-%d-%s" % (i, alg), extra=["--focus", focus])
        ctx.distinct_nontrivial += v["extra"].get("nontrivial_cases", 0)
        import os
        os.remove(cases)
    ctx.exhaustive = True
    trace, info = ctx.record(binary, "segtree")
    ctx.sample_trace(trace, k=4)
    ctx.validate("segtree", "SegtreeTrace", ctx.cfg("segtree", "SegtreeTrace.cfg"), trace, runs=info.get("runs", 1),
                 timeout=ctx.q(900, 5000), keyfn=lambda m: trace_key(m))
    # both properties are judged on the same traces; keep only this property's observables
    keep = (lambda k: ".ask" in k or ".set" in k or ".modify" in k or "debug" in k or "history" in k) if focus == "ask" else \
           (lambda k: "lower_bound" in k or ".lb" in k)
    ctx.violations = [x for x in ctx.violations if keep(x["key"])]
    ctx.extra["record_info"] = info
    ctx.assumptions += [
        "TLC 1.8 evaluates the TLA+ specifications correctly",
        "HashAff / SumAff are harness-defined items implementing the public SegtreeItem trait; their lawfulness (monoid action) "
        "is what the MC run of (B) against (A) establishes for the mirrored TLA+ definitions",
        "values are small integers (no overflow); built-in items instantiated at i64",
    ]


def trace_key(m):
    got = m.get("got") or {}
    ev = got.get("ev", "?") if isinstance(got, dict) else "?"
    names = {"lb": "lower_bound", "lbrev": "lower_bound_rev"}
    if isinstance(got, dict) and "panic" in got:
        return "segtree.%s: panic" % names.get(ev, ev)
    if ev == "ask":
        return "segtree.ask: wrong aggregate"
    if ev in names:
        want = m.get("want") or {}
        if "allowed_predicate_arguments" in want:
            return "segtree.%s: predicate shown a value that is not a range aggregate" % names[ev]
        return "segtree.%s: wrong index" % names[ev]
    return "segtree.%s: rejected" % ev


def validate_segment(ctx, v, trace):
    ctx.validate("segtree", "SegtreeTrace", ctx.cfg("segtree", "SegtreeTrace.cfg"), trace, keyfn=trace_key)
