"""C09 — rlib_io::Writer (spec/writer)."""
import os
import vlib
from vlib import ToolError


def cargo(ctx, args, what):
    rc, out, dt = vlib.sh(["cargo", "build", "--offline", "--quiet"] + args, cwd=vlib.HARNESS, timeout=1800,
                          env={"CARGO_NET_OFFLINE": "true"})
    if rc != 0:
        raise ToolError("harness build failed (%s):\n%s" % (what, out[-4000:]))
    ctx.log("built harness %s in %.1fs" % (what, dt))


def binaries(ctx):
    cargo(ctx, [], "dev")
    cargo(ctx, ["--release"], "release")
    cargo(ctx, ["--features", "smallbuf", "--target-dir", "target_small"], "small-buffer dev")
    cargo(ctx, ["--release", "--features", "smallbuf", "--target-dir", "target_small"], "small-buffer release")
    h = vlib.HARNESS
    return {"dev": os.path.join(h, "target/debug/drv"), "rel": os.path.join(h, "target/release/drv"),
            "small-dev": os.path.join(h, "target_small/debug/drv"), "small-rel": os.path.join(h, "target_small/release/drv")}


def build(ctx, v=None):
    b = binaries(ctx)
    if v and "small" in v.get("stage", ""):
        return b["small-dev"] if "debug" in v["stage"] else b["small-rel"]
    return b["rel"]


def run(ctx):
    ctx.rule = ("MC/GEN: all histories of <= Depth writes (string pieces of every size 0..2*BUF+1 continuing one running "
                "alphabet, chars, integers incl. 0 / negatives / exactly BUF digits, tuples) and flushes on WriterImpl (B) "
                "with BUF = 8 in lockstep with Writer (A), both build profiles (FlushPerWrite); one replay case per distinct "
                "(B)-state, each run under 3 sink behaviours x {flush, drop} on the real Writer built with an 8-byte buffer in "
                "the matching profile; non-trivial = output longer than the buffer. I->S: production buffer, fill level "
                "steered to within 45 bytes of 65536 before sweeps of all 12 integer types (boundary values), vectors, "
                "tuples of arity 2..8, strings longer than the buffer; sinks accepting 1 byte / half / random with "
                "Interrupted; round-trip runs read back by the real Reader; validated by WriterTrace.")
    b = binaries(ctx)
    depth = ctx.q("3", "4")
    for prof, flag, binary in (("release", "FALSE", b["small-rel"]), ("debug", "TRUE", b["small-dev"])):
        g = ctx.cfg("writer", "WriterGen.cfg", {"FlushPerWrite": flag, "Depth": depth}, name="WriterGen_%s.cfg" % prof)
        cases, n = ctx.gen("writer", "WriterGen", g, "cases-%s.ndjson" % prof, stage="mcgen-%s" % prof, workers=8,
                           timeout=ctx.q(900, 3000), expect_actions=["DoStr", "DoChar", "DoInt", "DoVec", "DoFlush"])
        v = ctx.replay(binary, "writer", cases, stage="replay-small-%s" % prof)
        ctx.distinct_nontrivial += v["extra"].get("nontrivial_cases", 0)
    ctx.exhaustive = True
    # the composition of the two abstract specs (round trip) as a TLC-checked theorem
    r = ctx.tlc("writer", "RoundTrip", os.path.join(vlib.SPEC, "writer", "RoundTrip.cfg"), "roundtrip-spec", workers=1, timeout=600, coverage=False)
    ctx.stages.append({"stage": "roundtrip-spec", "kind": "TLC: Reader(A) o Writer(A) = identity on small values", "wall_s": r["wall_s"]})
    # I->S on the production buffer, both profiles
    for prof, binary in (("release", b["rel"]), ("debug", b["dev"])):
        trace, info = ctx.record(binary, "writer", stage="record-%s" % prof)
        ctx.validate("writer", "WriterTrace", ctx.cfg("writer", "WriterTrace.cfg"), trace, stage="validate-%s" % prof,
                     runs=info.get("runs", 1), timeout=ctx.q(900, 4000), keyfn=trace_key)
        ctx.extra["record_info_" + prof] = info
        if prof == "release":
            ctx._sample({"direction": "impl->spec", "stage": "record-release", "first_events": head_events(trace)})
    ctx.assumptions += [
        "TLC 1.8 evaluates the TLA+ specifications correctly",
        "std::io::Write::write_all delivers all offered bytes in order to a lawful sink (modelled as an atomic append in (B)); "
        "the harness sinks accept partially and raise Interrupted but never return Ok(0) for a non-empty buffer",
        "the decimal text of every logged integer is a witness from std formatting, accepted by the spec only if its BigNat "
        "Horner value equals the logged limbs and it is canonical",
        "small-buffer builds use integers of at most 8 digits (a piece larger than the buffer is outside the crate's contract)",
    ]


def head_events(trace, k=4):
    import json
    out = []
    with open(trace) as f:
        for line in f:
            e = json.loads(line)
            if "sink" in e:
                e = {"ev": e["ev"], "sink_len": len(e["sink"]), "sink_head": e["sink"][:30]}
            if e.get("ev") == "w" and e["item"].get("k") == "s" and len(e["item"]["v"]) > 40:
                e = {"ev": "w", "item": {"k": "s", "len": len(e["item"]["v"]), "head": e["item"]["v"][:20]}}
            out.append(e)
            if len(out) >= k:
                break
    return out


def trace_key(m):
    got = m.get("got") or {}
    ev = got.get("ev", "?") if isinstance(got, dict) else "?"
    if isinstance(got, dict) and "panic" in got:
        return "writer.%s: panic" % ev
    if ev in ("flush", "drop"):
        return "writer.%s: sink differs from the formatted bytes" % ev
    if ev == "rt":
        return "writer: round trip through Reader differs"
    return "writer.%s: rejected" % ev


def validate_segment(ctx, v, trace):
    ctx.validate("writer", "WriterTrace", ctx.cfg("writer", "WriterTrace.cfg"), trace, keyfn=trace_key)
