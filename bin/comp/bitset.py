"""C12 — rlib_bitset::Bitset<N> (spec/bitset)."""
import os

ACTIONS = ["DoPoint", "DoBulk", "DoBinary", "DoT"]


def build(ctx, v=None):
    return ctx.build()


def run(ctx):
    ctx.rule = ("MC/GEN: complete state space of BitsetImpl (B) (words as bit-position sets, point operations by x/64 and x%64, "
                "word-wise operators, the index iterator transcribed) in lockstep with the index-set spec Bitset (A) over the boundary "
                "universe {0,1,62,63,64,65,126,127,128,191} for the first operand (incl. complement, from_u64) and a sub-universe for "
                "the second, per capacity. One replay case per distinct state carrying the full successor table, so EVERY transition "
                "(value and assigning forms of and/or/xor, not, set/remove/flip at every boundary index, from_u64, clear) is executed "
                "on the real Bitset<N> and every observable (iter_bits, count, test on all indices, Display, Debug, ==) compared. "
                "Non-trivial = state with >= 2 members. I->S: random histories on Bitset<1>,<2>,<3>,<10> over the whole index range.")
    binary = build(ctx)
    configs = ctx.q([("1", "{0, 63}"), ("2", "{63, 64}")],
                    [("1", "{0, 1, 63}"), ("2", "{0, 63, 64, 127}"), ("3", "{63, 128, 191}")])
    for i, (cap, sub) in enumerate(configs):
        g = ctx.cfg("bitset", "BitsetGen.cfg", {"Cap": cap, "SubUniv": sub}, name="BitsetGen_%d.cfg" % i)
        cases, n = ctx.gen("bitset", "BitsetGen", g, "cases-%d.ndjson" % i, stage="mcgen-N%s" % cap, workers=8, timeout=ctx.q(900, 5000),
                           coverage=(i == 0), expect_actions=ACTIONS if i == 0 else None)
        v = ctx.replay(binary, "bitset", cases, stage="replay-N%s" % cap)
        ctx.distinct_nontrivial += v["extra"].get("nontrivial_cases", 0)
        os.remove(cases)
    ctx.exhaustive = True
    trace, info = ctx.record(binary, "bitset")
    ctx.sample_trace(trace, k=5)
    ctx.validate("bitset", "BitsetTrace", ctx.cfg("bitset", "BitsetTrace.cfg"), trace, runs=info.get("runs", 1), timeout=ctx.q(900, 5000), keyfn=trace_key)
    ctx.extra["record_info"] = info
    ctx.assumptions += [
        "TLC 1.8 evaluates the TLA+ specifications correctly",
        "the model's index universe is a boundary set (exhaustive over it); other indices are reached by the recorded random histories",
        "the expected 0/1 rendering is derived by the harness from the specification's index set (characteristic string)",
    ]


def trace_key(m):
    got = m.get("got") or {}
    ev = got.get("ev", "?") if isinstance(got, dict) else "?"
    if isinstance(got, dict) and "panic" in got:
        return "bitset.%s: panic" % got.get("op", ev)
    names = {"iter": "iter_bits", "display": "Display", "eq": "=="}
    return "bitset.%s: differs from the index set" % names.get(ev, ev)


def validate_segment(ctx, v, trace):
    ctx.validate("bitset", "BitsetTrace", ctx.cfg("bitset", "BitsetTrace.cfg"), trace, keyfn=trace_key)
