"""C05 — disjoint-set union (spec/dsu)."""


def build(ctx, v=None):
    return ctx.build()


def run(ctx):
    ctx.rule = ("MC/GEN: complete (A)+(B) state space of Dsu/DsuImpl for the listed sizes, one replay case per distinct "
                "state (history + full table of un/check/size/par answers); non-trivial = state whose partition has a "
                "component of >= 2 elements. PROOF: the ghost-weight invariant behind the log-depth clause (weights double along "
                "parent edges, root weight <= root size) is proved inductive for ALL n by TLAPS (DsuRank.tla, Link / Compress / Reset "
                "steps) and checked by TLC along the real transitions of (B) (MC_DsuRank). I->S: random + adversarial histories recorded from the real DSU, every "
                "event judged by DsuTrace (A).")
    binary = build(ctx)
    sizes = ctx.q("{1, 2, 3, 4, 5}", "{1, 2, 3, 4, 5, 6}")
    mc = ctx.cfg("dsu", "MC_Dsu.cfg", {"Sizes": sizes})
    ctx.mc("dsu", "MC_Dsu", mc, workers=ctx.q(4, 8), timeout=ctx.q(600, 3000),
           expect_actions=["DoReset|Reset", "DoUn", "DoPar", "DoCheck", "DoSize"])
    # log-depth clause for ALL n and all histories: inductive invariant of DsuRank proved by TLAPS, and the same ghost
    # weights carried along the real (B) transitions, checked by TLC on the complete state space
    ctx.extra["tlaps_obligations"] = ctx.tlapm("dsu", "DsuRank")
    ctx.mc("dsu", "MC_DsuRank", ctx.cfg("dsu", "MC_DsuRank.cfg", {"Sizes": sizes}), stage="mc-rank", workers=ctx.q(4, 8), timeout=ctx.q(600, 3000),
           coverage=False)
    g = ctx.cfg("dsu", "DsuGen.cfg", {"Sizes": sizes})
    cases, n = ctx.gen("dsu", "DsuGen", g, "cases.ndjson", workers=ctx.q(4, 8), timeout=ctx.q(600, 3000), coverage=False)
    v = ctx.replay(binary, "dsu", cases)
    ctx.distinct_nontrivial += v["extra"].get("nontrivial_states", 0)
    ctx.exhaustive = True
    trace, info = ctx.record(binary, "dsu")
    ctx.sample_trace(trace)
    ctx.validate("dsu", "DsuTrace", ctx.cfg("dsu", "DsuTrace.cfg"), trace, runs=info.get("runs", 1))
    ctx.extra["record_info"] = info
    ctx.assumptions += [
        "TLC 1.8 evaluates the TLA+ specifications correctly",
        "TLAPS 1.6 (SMT, Zenon, Isabelle back ends) is sound; DsuRank models `par` as a sequence of single pointer updates "
        "p[x] := p[p[x]] (a superset of the recursive full compression, see the module header)",
        "forest depth is read through the cfg(feature=verif) accessor verif_parents(); component sizes used for the "
        "depth bound are the specification's (replay) or counted by the harness by walking parent pointers (big runs)",
        "big universes (1e4..1e6) are judged on the depth bound only; connectivity is validated up to n = 1024",
    ]


def validate_segment(ctx, v, trace):
    ctx.validate("dsu", "DsuTrace", ctx.cfg("dsu", "DsuTrace.cfg"), trace)
