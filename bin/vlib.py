"""Runner library: TLC invocation, harness build/run, verdict policy, evidence, known findings.

Exit codes of a check: 0 = property held on everything explored (known findings are printed),
1 = violation (always with a `VIOLATION property=<id> replay=<path>` line and a replay file),
2 = tool error / time-out / my own model broken (never a verdict about the code under test).
"""
import json
import os
import re
import shutil
import subprocess
import sys
import time

VERIF = os.path.dirname(os.path.dirname(os.path.abspath(__file__)))
SPEC = os.path.join(VERIF, "spec")
HARNESS = os.path.join(VERIF, "harness")
REPO = "/repo"
KNOWN = os.path.join(VERIF, "known_findings.jsonl")


class ToolError(Exception):
    pass


class CodeUnderTestDied(Exception):
    """the harness process was killed by a signal or did not terminate while executing the code under test
    (stack overflow from runaway recursion, abort, non-termination): reported as a violation, not as a tool error"""
    pass


def sh(cmd, env=None, timeout=None, cwd=None, check=False):
    e = dict(os.environ)
    if env:
        e.update(env)
    t0 = time.time()
    try:
        p = subprocess.run(cmd, shell=isinstance(cmd, str), env=e, cwd=cwd, timeout=timeout,
                           stdout=subprocess.PIPE, stderr=subprocess.STDOUT, text=True, errors="replace")
    except subprocess.TimeoutExpired as ex:
        out = ex.stdout or ""
        if isinstance(out, bytes):
            out = out.decode("utf-8", "replace")
        raise ToolError("timeout after %ss: %s\n%s" % (timeout, cmd, out[-2000:]))
    if check and p.returncode != 0:
        raise ToolError("command failed (%d): %s\n%s" % (p.returncode, cmd, p.stdout[-4000:]))
    return p.returncode, p.stdout, time.time() - t0


ACTION_RE = re.compile(r"^<(\w+) line (\d+), col \d+ to line \d+, col \d+ of module (\w+)(?: \([\d ]+\))?>: (\d+):(\d+)")


class Ctx:
    def __init__(self, pid, tier, seed, level="model_checking"):
        self.pid = pid
        self.tier = tier
        self.seed = seed
        self.level = level
        self.t0 = time.time()
        self.work = os.path.join(VERIF, "work", pid)
        shutil.rmtree(self.work, ignore_errors=True)
        os.makedirs(self.work, exist_ok=True)
        self.thorough = tier == "thorough"
        self.states = 0
        self.transitions = 0
        self.traces = 0           # histories replayed into / recorded from the real code and judged by the spec
        self.trace_events = 0
        self.replay_cases = 0
        self.replay_checks = 0
        self.distinct_nontrivial = 0
        self.samples = []
        self.stages = []
        self.violations = []      # dicts: key, stage, detail
        self.assumptions = []
        self.extra = {}
        self.exhaustive = None
        self.rule = ""
        self.built = set()
        # behaviour beyond the listed properties: own evidence directory, own report line (never a property VIOLATION)
        self.beyond = False

    # ------------------------------------------------------------------ helpers
    def q(self, quick, thorough):
        return thorough if self.thorough else quick

    def log(self, msg):
        print("[%s %6.1fs] %s" % (self.pid, time.time() - self.t0, msg), flush=True)

    def path(self, name):
        return os.path.join(self.work, name)

    # ------------------------------------------------------------------ cargo
    def build(self, harness="harness", release=False, features=None, env=None):
        key = (harness, release, tuple(features or ()))
        hdir = os.path.join(VERIF, harness)
        cmd = ["cargo", "build", "--offline", "--quiet"]
        if release:
            cmd.append("--release")
        if features:
            cmd += ["--features", ",".join(features)]
        e = {"CARGO_NET_OFFLINE": "true"}
        if env:
            e.update(env)
        rc, out, dt = sh(cmd, cwd=hdir, timeout=1800, env=e)
        if rc != 0:
            raise ToolError("harness build failed (%s):\n%s" % (harness, out[-6000:]))
        self.built.add(key)
        self.log("built %s%s in %.1fs" % (harness, " --release" if release else "", dt))
        return os.path.join(hdir, "target", "release" if release else "debug", "drv")

    def drv(self, binary, args, timeout=3600, env=None):
        try:
            rc, out, dt = sh([binary] + args, timeout=timeout, env=env)
        except ToolError as ex:
            if str(ex).startswith("timeout"):
                self.violations.append({"key": "%s: harness did not terminate within %ds while executing the code under test" % (args[0], timeout),
                                        "stage": args[1], "kind": "died", "component": args[0],
                                        "detail": {"command": [binary] + args, "seed": self.seed, "tier": self.tier}})
                raise CodeUnderTestDied(str(ex))
            raise
        if rc < 0 or rc in (134, 139, 137):
            self.violations.append({"key": "%s: harness process died (rc=%d) while executing the code under test" % (args[0], rc),
                                    "stage": args[1], "kind": "died", "component": args[0],
                                    "detail": {"command": [binary] + args, "output_tail": out[-1500:], "seed": self.seed, "tier": self.tier}})
            raise CodeUnderTestDied("rc=%d" % rc)
        if rc != 0:
            raise ToolError("harness run failed rc=%d: %s\n%s" % (rc, " ".join(args), out[-4000:]))
        info = {}
        for line in out.splitlines():
            line = line.strip()
            if line.startswith("{"):
                try:
                    info = json.loads(line)
                except ValueError:
                    pass
        return info

    # ------------------------------------------------------------------ TLC
    def cfg(self, comp, base, overrides=None, name=None):
        """Copy spec/<comp>/<base> into the work dir with CONSTANT overrides (dict name -> TLA+ text)."""
        src = os.path.join(SPEC, comp, base)
        text = open(src).read()
        for k, v in (overrides or {}).items():
            pat = re.compile(r"^(CONSTANT\s+%s\s*=).*$" % re.escape(k), re.M)
            if not pat.search(text):
                raise ToolError("cfg %s has no CONSTANT %s" % (src, k))
            text = pat.sub(lambda m: "%s %s" % (m.group(1), v), text)
        dst = self.path(name or base)
        open(dst, "w").write(text)
        return dst

    def tlc(self, comp, module, cfg, stage, env=None, workers=8, timeout=1800, heap="8g",
            deque=False, coverage=True, expect_actions=None, allow_fail=False, simulate=None):
        """Run TLC on spec/<comp>/<module>.tla. Returns dict with counts, action coverage, stdout."""
        meta = self.path("tlc-" + stage)
        shutil.rmtree(meta, ignore_errors=True)
        tmpd = self.path("jtmp")
        os.makedirs(tmpd, exist_ok=True)
        jopts = "-Djava.io.tmpdir=%s -DTLA-Library=%s -Xss1g -Xmx%s -XX:ParallelGCThreads=4" % (tmpd, 
            os.pathsep.join([os.path.join(SPEC, "lib")] + [os.path.join(SPEC, d) for d in sorted(os.listdir(SPEC)) if d != "lib"]), heap)
        if deque:
            jopts += " -Dtlc2.tool.queue.IStateQueue=StateDeque"
        # JDK_JAVA_OPTIONS is read by the launcher, which sizes the main thread's stack from it: TLC pre-evaluates
        # constant definitions (tables built by deep recursion) on the main thread and silently skips the caching
        # when that overflows the stack
        e = {"JAVA_TOOL_OPTIONS": jopts, "JDK_JAVA_OPTIONS": "-Xss1g"}
        if env:
            e.update(env)
        cmd = ["timeout", str(timeout), "tlc", "-workers", str(workers), "-metadir", meta, "-cleanup",
               "-noGenerateSpecTE", "-checkpoint", "0", "-config", cfg]
        if coverage:
            cmd += ["-coverage", "1"]
        if simulate:
            cmd += ["-simulate", simulate]
        cmd.append(os.path.join(SPEC, comp, module + ".tla"))
        rc, out, dt = sh(cmd, env=e, cwd=os.path.join(SPEC, comp))
        shutil.rmtree(meta, ignore_errors=True)
        open(self.path("tlc-%s.log" % stage), "w").write(out)
        res = {"rc": rc, "out": out, "wall_s": round(dt, 1), "stage": stage, "module": module}
        m = re.search(r"(\d+) states generated, (\d+) distinct states found", out)
        if m:
            res["generated"] = int(m.group(1))
            res["distinct"] = int(m.group(2))
        m = re.search(r"depth of the complete state graph search is (\d+)", out)
        if m:
            res["depth"] = int(m.group(1))
        acts = {}
        for line in out.splitlines():
            mm = ACTION_RE.match(line)
            if mm:
                nm = mm.group(1)
                acts[nm] = acts.get(nm, 0) + int(mm.group(5))
        res["actions"] = acts
        ok = "Model checking completed. No error has been found." in out or (simulate and rc in (0, 124) and "Error:" not in out)
        res["ok"] = bool(ok)
        if rc == 124 and not simulate:
            raise ToolError("TLC timed out in stage %s (%ss)" % (stage, timeout))
        if not ok and not allow_fail:
            tail = "\n".join(l for l in out.splitlines() if not l.startswith("  ") and not l.startswith("<"))[-5000:]
            raise ToolError("TLC failed in stage %s (rc=%d):\n%s" % (stage, rc, tail))
        if expect_actions and ok:
            for a in expect_actions:
                if sum(acts.get(x, 0) for x in a.split("|")) == 0:
                    raise ToolError("vacuity: action %s of %s never taken in stage %s (coverage: %s)" % (a, module, stage, acts))
        return res

    def mc(self, comp, module, cfg, stage="mc", **kw):
        r = self.tlc(comp, module, cfg, stage, **kw)
        self.states += r.get("distinct", 0)
        self.transitions += r.get("generated", 0)
        self.stages.append({"stage": stage, "kind": "MC (exhaustive TLC model check of (A)+(B))", "module": module,
                            "distinct_states": r.get("distinct"), "states_generated": r.get("generated"),
                            "depth": r.get("depth"), "actions": r["actions"], "wall_s": r["wall_s"]})
        self.log("%s: %s distinct / %s generated states, %.1fs" % (stage, r.get("distinct"), r.get("generated"), r["wall_s"]))
        return r

    def tlapm(self, comp, module, stage="tlaps", timeout=1200, threads=6):
        """Proof check with the TLA+ proof system (all obligations must be proved); the module is copied into the work
        directory so that tlapm's fingerprint cache stays out of the tree."""
        d = self.path("tlaps-" + module)
        os.makedirs(d, exist_ok=True)
        shutil.copy(os.path.join(VERIF, "spec", comp, module + ".tla"), d)
        t0 = time.time()
        rc, out, dt = sh(["timeout", str(timeout), "tlapm", "--threads", str(threads), "--cleanfp", module + ".tla"], cwd=d, timeout=timeout + 60)
        m = re.search(r"All (\d+) obligations? proved", out)
        if rc != 0 or not m:
            raise ToolError("tlapm did not prove %s (rc=%s):\n%s" % (module, rc, out[-3000:]))
        n = int(m.group(1))
        self.stages.append({"stage": stage, "kind": "TLAPS proof (unbounded)", "module": module, "obligations_proved": n, "wall_s": round(time.time() - t0, 1)})
        self.log("%s: tlapm proved all %d obligations of %s, %.1fs" % (stage, n, module, time.time() - t0))
        return n

    def gen(self, comp, module, cfg, out_name, stage="gen", **kw):
        out = self.path(out_name)
        if os.path.exists(out):
            os.remove(out)
        env = dict(kw.pop("env", {}) or {})
        env["OUT"] = out
        r = self.tlc(comp, module, cfg, stage, env=env, **kw)
        n = 0
        if os.path.exists(out):
            with open(out) as f:
                for _ in f:
                    n += 1
        if n == 0:
            raise ToolError("generator %s emitted nothing" % module)
        self.states += r.get("distinct", 0)
        self.transitions += r.get("generated", 0)
        self.stages.append({"stage": stage, "kind": "GEN (TLC state graph -> replay cases)", "module": module,
                            "distinct_states": r.get("distinct"), "states_generated": r.get("generated"),
                            "cases_emitted": n, "actions": r["actions"], "wall_s": r["wall_s"]})
        self.log("%s: %d cases from %s distinct states, %.1fs" % (stage, n, r.get("distinct"), r["wall_s"]))
        return out, n

    def replay(self, binary, comp, cases, stage="replay", extra=None, timeout=3600, env=None):
        vfile = self.path("verdict-%s.json" % stage)
        t = time.time()
        self.drv(binary, [comp, "replay", cases, "--out", vfile, "--seed", str(self.seed), "--tier", self.tier] + (extra or []),
                 timeout=timeout, env=env)
        v = json.load(open(vfile))
        self.replay_cases += v["cases"]
        self.replay_checks += v["checks"]
        self.traces += v["cases"]
        for s in v.get("samples", [])[:2]:
            self._sample({"direction": "spec->impl", "stage": stage, "case": s})
        for m in v["mismatches"]:
            self.violations.append({"key": m["key"], "stage": stage, "kind": "replay", "component": comp,
                                    "extra_args": extra or [], "detail": m["detail"]})
        self.stages.append({"stage": stage, "kind": "S->I (cases replayed into the real code)", "cases": v["cases"],
                            "comparisons": v["checks"], "mismatches": len(v["mismatches"]), "extra": v.get("extra", {}),
                            "wall_s": round(time.time() - t, 1)})
        self.log("%s: %d cases, %d comparisons, %d mismatches" % (stage, v["cases"], v["checks"], len(v["mismatches"])))
        return v

    def record(self, binary, comp, stage="record", extra=None, timeout=3600, env=None, name=None, mode="record"):
        trace = self.path(name or ("trace-%s.ndjson" % stage))
        info = self.drv(binary, [comp, mode, "--seed", str(self.seed), "--tier", self.tier, "--out", trace] + (extra or []),
                        timeout=timeout, env=env)
        return trace, info

    def validate(self, comp, module, cfg, trace, stage="validate", key_prefix=None, runs=1, timeout=3600, heap="12g",
                 keyfn=None, env=None, deque=True, record_violations=True, need_note=None):
        """TLC checks a recorded trace against the trace spec (monitor style: MISMATCH lines)."""
        nlines = sum(1 for _ in open(trace))
        e = {"TRACE": trace}
        if env:
            e.update(env)
        r = self.tlc(comp, module, cfg, stage, env=e, workers=1, timeout=timeout, heap=heap, deque=deque,
                     coverage=False)
        if "INCOMPLETE" in r["out"]:
            raise ToolError("trace spec %s did not consume the whole trace (%s)" % (module, stage))
        if need_note and ('"NOTE %s"' % need_note) not in r["out"]:
            raise ToolError("trace spec %s did not reach its judgement (%s) in stage %s" % (module, need_note, stage))
        mism = []
        notes = {}
        lines = None
        for line in r["out"].splitlines():
            line = line.strip()
            if line.startswith('"MISMATCH '):
                s = json.loads(line)
                mism.append(json.loads(s[len("MISMATCH "):]))
            elif line.startswith('"NOTE '):
                tag = json.loads(line)[len("NOTE "):]
                notes[tag] = notes.get(tag, 0) + 1
        found = []
        for m in mism:
            got = m.get("got")
            ev = got.get("ev", "?") if isinstance(got, dict) else "?"
            key = keyfn(m) if keyfn else "%s.%s: wrong result" % (key_prefix or comp, ev)
            if lines is None:
                lines = open(trace).read().splitlines()
            ln = m.get("line", 0)
            # segment: from the last reset before the failing line
            start = ln
            while start > 1 and '"ev":"reset"' not in lines[start - 1].replace(" ", ""):
                start -= 1
            seg = lines[max(start - 1, 0):ln]
            if len(seg) > 400:
                seg = seg[:5] + ["..."] + seg[-50:]
            found.append({"key": key, "stage": stage, "kind": "trace", "component": comp, "module": module,
                          "detail": {"line": ln, "event": got, "spec_demands": m.get("want"),
                                     "trace_segment": seg, "seed": self.seed, "tier": self.tier}})
        if record_violations:
            self.violations += found
        self.traces += runs
        self.trace_events += nlines
        self.states += r.get("distinct", 0)
        self.transitions += r.get("generated", 0)
        self.stages.append({"stage": stage, "kind": "I->S (recorded trace validated by TLC)", "module": module, "events": nlines,
                            "runs": runs, "mismatches": len(mism), "notes": notes, "wall_s": r["wall_s"]})
        self.log("%s: %d events validated, %d mismatches, %.1fs" % (stage, nlines, len(mism), r["wall_s"]))
        return found

    def sample_trace(self, trace, k=3, stage="record"):
        with open(trace) as f:
            head = [json.loads(next(f)) for _ in range(k)]
        self._sample({"direction": "impl->spec", "stage": stage, "first_events": head})

    def _sample(self, s):
        if len(self.samples) < 6:
            txt = json.dumps(s)
            if len(txt) > 3000:
                s = {"truncated": txt[:3000]}
            self.samples.append(s)

    # ------------------------------------------------------------------ verdict
    def finish(self):
        known = []
        if os.path.exists(KNOWN):
            for line in open(KNOWN):
                line = line.strip()
                if line:
                    known.append(json.loads(line))
        findings = [k for k in known if k.get("property") == self.pid and k.get("status") == "finding"]
        new, matched = [], {}
        for v in self.violations:
            hit = None
            for k in findings:
                if re.search(k["key_re"], v["key"]):
                    hit = k
                    break
            if hit is None:
                new.append(v)
            else:
                matched.setdefault(hit["key_re"], [hit, 0])[1] += 1
        for k, (hit, cnt) in matched.items():
            print("KNOWN-FINDING: property=%s %s (%d occurrence(s) this run)" % (self.pid, hit.get("what", hit["key_re"]), cnt))
        wall = time.time() - self.t0
        cov = {
            "states": self.states,
            "transitions": self.transitions,
            "traces_validated_against_impl": self.traces,
            "samples": self.samples or [{"note": "no sample recorded"}],
            "trace_events_validated_by_tlc": self.trace_events,
            "replay_cases": self.replay_cases,
            "replay_comparisons": self.replay_checks,
            "evaluations": self.replay_checks + self.trace_events,
            "distinct_nontrivial": self.distinct_nontrivial,
            "rule": self.rule,
            "stages": self.stages,
        }
        if self.exhaustive is not None:
            cov["exhaustive"] = self.exhaustive
        cov.update(self.extra)
        ev = {
            "property_id": self.pid,
            "tier": self.tier,
            "seed": self.seed,
            "level": self.level,
            "coverage": cov,
            "assumptions": self.assumptions,
            "wall_s": round(wall, 1),
            "violations": len(new),
            "known_findings_seen": sum(c for _, c in matched.values()),
        }
        evdir = os.path.join(VERIF, "evidence_beyond" if self.beyond else "evidence")
        os.makedirs(evdir, exist_ok=True)
        with open(os.path.join(evdir, self.pid + ".json"), "w") as f:
            json.dump(ev, f, indent=1)
            f.write("\n")
        if new:
            seen = set()
            n = 0
            for v in new:
                if v["key"] in seen and n >= 5:
                    continue
                seen.add(v["key"])
                n += 1
                rp = self.path("violation-%d.json" % n)
                with open(rp, "w") as f:
                    json.dump({"property": self.pid, **v}, f, indent=1)
                if self.beyond:
                    print("BEYOND-MISMATCH component=%s replay=%s  [%s]" % (self.pid, rp, v["key"]))
                else:
                    print("VIOLATION property=%s replay=%s  [%s]" % (self.pid, rp, v["key"]))
                if n >= 20:
                    break
            self.log("%d violation(s) (%d shown)" % (len(new), n))
            return 1
        self.log("OK: %d states, %d replayed cases, %d trace events, %.1fs" % (self.states, self.replay_cases, self.trace_events, wall))
        return 0
