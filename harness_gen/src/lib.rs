// generated tests live in tests/
