//! C10 — rlib_geometry.  record: exhaustive lattice configurations, dyadic real-valued configurations and
//! constructed (near-)tangencies, with the kinds and points the library returns, for GeometryTrace.tla.
use crate::util::*;
use rlib_geometry::{circle::Circle, line::Line, point::Point, util::{intersect_cc, intersect_cl, intersect_ll, CircleIntersection, CircleLineIntersection}};
use serde_json::{json, Value};

fn bi(v: i128) -> Value {
    let (neg, mag) = signed_limbs(v);
    json!({"neg": neg, "mag": mag})
}
/// a returned coordinate at scale 2^-30 (rounded; the specification's tolerance carries one unit of slack)
fn sc(x: f64) -> Value {
    if !x.is_finite() {
        return json!({"neg": false, "mag": [4095, 4095, 4095, 4095, 4095, 4095, 4095, 4095]});
    }
    bi((x * (1u64 << 30) as f64).round() as i128)
}
fn pt(p: &Point) -> Value {
    json!([sc(p.x), sc(p.y)])
}
fn ip(x: i128, y: i128) -> Value {
    json!([bi(x), bi(y)])
}
fn f(v: i128, s: u32) -> f64 {
    v as f64 / (1u64 << s) as f64
}
fn fp(x: i128, y: i128, s: u32) -> Point {
    Point::new(f(x, s), f(y, s))
}

fn ev_cc(t: &mut TraceWriter, s: u32, c1: (i128, i128), r1: i128, c2: (i128, i128), r2: i128, tag: &str) {
    let (a, b) = (Circle::new(fp(c1.0, c1.1, s), f(r1, s)), Circle::new(fp(c2.0, c2.1, s), f(r2, s)));
    let mut ev = json!({"ev": "cc", "op": "intersect_cc", "s": s, "c1": ip(c1.0, c1.1), "r1": bi(r1), "c2": ip(c2.0, c2.1), "r2": bi(r2), "tag": tag});
    match catch(|| intersect_cc(&a, &b)) {
        Ok(r) => {
            let (k, pts): (&str, Vec<Point>) = match r {
                CircleIntersection::None => ("None", vec![]),
                CircleIntersection::Same => ("Same", vec![]),
                CircleIntersection::TouchInside(p) => ("TouchInside", vec![p]),
                CircleIntersection::TouchOutside(p) => ("TouchOutside", vec![p]),
                CircleIntersection::Intersect(p, q) => ("Intersect", vec![p, q]),
            };
            ev["kind"] = json!(k);
            ev["pts"] = json!(pts.iter().map(pt).collect::<Vec<_>>());
            // the same points through IntoIterator
            ev["pts_iter"] = json!(r.into_iter().map(|p| pt(&p)).collect::<Vec<_>>());
        }
        Err(p) => ev["panic"] = json!(p),
    }
    t.ev(ev);
}

fn ev_cl(t: &mut TraceWriter, s: u32, c: (i128, i128), r: i128, a: (i128, i128), b: (i128, i128), tag: &str) {
    let circle = Circle::new(fp(c.0, c.1, s), f(r, s));
    let mut ev = json!({"ev": "cl", "op": "intersect_cl", "s": s, "c": ip(c.0, c.1), "r": bi(r), "a": ip(a.0, a.1), "b": ip(b.0, b.1), "tag": tag});
    match catch(|| intersect_cl(&circle, &Line::between(&fp(a.0, a.1, s), &fp(b.0, b.1, s)))) {
        Ok(r) => {
            let (k, pts): (&str, Vec<Point>) = match r {
                CircleLineIntersection::None => ("None", vec![]),
                CircleLineIntersection::Touch(p) => ("Touch", vec![p]),
                CircleLineIntersection::Intersect(p, q) => ("Intersect", vec![p, q]),
            };
            ev["kind"] = json!(k);
            ev["pts"] = json!(pts.iter().map(pt).collect::<Vec<_>>());
            ev["pts_iter"] = json!(r.into_iter().map(|p| pt(&p)).collect::<Vec<_>>());
        }
        Err(p) => ev["panic"] = json!(p),
    }
    t.ev(ev);
}

fn ev_ll(t: &mut TraceWriter, s: u32, a: (i128, i128), b: (i128, i128), c: (i128, i128), d: (i128, i128)) {
    let mut ev = json!({"ev": "ll", "op": "intersect_ll", "s": s, "a": ip(a.0, a.1), "b": ip(b.0, b.1), "c": ip(c.0, c.1), "d": ip(d.0, d.1)});
    match catch(|| intersect_ll(&Line::between(&fp(a.0, a.1, s), &fp(b.0, b.1, s)), &Line::between(&fp(c.0, c.1, s), &fp(d.0, d.1, s)))) {
        Ok(None) => {
            ev["kind"] = json!("None");
            ev["pts"] = json!([]);
        }
        Ok(Some(p)) => {
            ev["kind"] = json!("Point");
            ev["pts"] = json!([pt(&p)]);
        }
        Err(p) => ev["panic"] = json!(p),
    }
    t.ev(ev);
}

/// the library's own predicate for "no intersection point": parallel(l1, l2)
fn ev_par(t: &mut TraceWriter, s: u32, a: (i128, i128), b: (i128, i128), c: (i128, i128), d: (i128, i128)) {
    let mut ev = json!({"ev": "par", "op": "parallel", "s": s, "a": ip(a.0, a.1), "b": ip(b.0, b.1), "c": ip(c.0, c.1), "d": ip(d.0, d.1)});
    match catch(|| rlib_geometry::util::parallel(&Line::between(&fp(a.0, a.1, s), &fp(b.0, b.1, s)), &Line::between(&fp(c.0, c.1, s), &fp(d.0, d.1, s)))) {
        Ok(r) => ev["res"] = json!(r),
        Err(p) => ev["panic"] = json!(p),
    }
    t.ev(ev);
}

fn ev_pos(t: &mut TraceWriter, s: u32, p: (i128, i128), c: (i128, i128), r: i128) {
    let circle = Circle::new(fp(c.0, c.1, s), f(r, s));
    let mut ev = json!({"ev": "pos", "op": "position", "s": s, "p": ip(p.0, p.1), "c": ip(c.0, c.1), "r": bi(r)});
    match catch(|| circle.position(&fp(p.0, p.1, s))) {
        Ok(k) => ev["kind"] = json!(format!("{:?}", k)),
        Err(e) => ev["panic"] = json!(e),
    }
    t.ev(ev);
}

fn ev_contains(t: &mut TraceWriter, s: u32, p: (i128, i128), a: (i128, i128), b: (i128, i128)) {
    let mut ev = json!({"ev": "contains", "op": "contains", "s": s, "p": ip(p.0, p.1), "a": ip(a.0, a.1), "b": ip(b.0, b.1)});
    match catch(|| Line::between(&fp(a.0, a.1, s), &fp(b.0, b.1, s)).contains(&fp(p.0, p.1, s))) {
        Ok(k) => ev["kind"] = json!(format!("{}", k)),
        Err(e) => ev["panic"] = json!(e),
    }
    t.ev(ev);
}

const TRIPLES: [(i128, i128, i128); 6] = [(3, 4, 5), (5, 12, 13), (8, 15, 17), (7, 24, 25), (20, 21, 29), (4, 3, 5)];

pub fn record(seed: u64, tier: &str, out: &str) {
    let thorough = tier == "thorough";
    let mut rng = Rng::new(seed ^ 0xC10);
    let mut t = TraceWriter::create(out);
    let w: i128 = if thorough { 5 } else { 4 }; // half-width of the lattice window
    let rmax: i128 = if thorough { 6 } else { 5 };
    // ---- lattice, exhaustive: circle / circle
    for c1 in [(0i128, 0i128), (3, -2)] {
        for dx in -w..=w {
            for dy in -w..=w {
                for r1 in 1..=rmax {
                    for r2 in 1..=rmax {
                        ev_cc(&mut t, 0, c1, r1, (c1.0 + dx, c1.1 + dy), r2, "lattice");
                    }
                }
            }
        }
    }
    // ---- lattice: circle / line through two lattice points
    let dirs: Vec<(i128, i128)> = {
        let m: i128 = if thorough { 4 } else { 3 };
        let mut v = vec![];
        for dx in -m..=m {
            for dy in -m..=m {
                if (dx, dy) != (0, 0) && crate::geometry::gcd_i(dx.abs(), dy.abs()) == 1 {
                    v.push((dx, dy));
                }
            }
        }
        v
    };
    for c in [(0i128, 0i128), (2, 1)] {
        for r in 1..=rmax {
            let wl = if thorough { w } else { 3 };
            for px in -wl..=wl {
                for py in -wl..=wl {
                    for &(dx, dy) in &dirs {
                        if (px + py + dx).rem_euclid(if thorough { 1 } else { 2 }) != 0 {
                            continue;
                        }
                        ev_cl(&mut t, 0, c, r, (px, py), (px + dx, py + dy), "lattice");
                    }
                }
            }
        }
    }
    // ---- lattice: line / line, point / circle, point / line
    let lines: Vec<((i128, i128), (i128, i128))> = {
        let mut v = vec![];
        for p in [(0i128, 0i128), (1, 2), (-3, 1), (2, -2)] {
            for &(dx, dy) in dirs.iter().step_by(2) {
                v.push((p, (p.0 + dx, p.1 + dy)));
            }
        }
        v
    };
    for (i, l1) in lines.iter().enumerate() {
        for l2 in lines.iter().skip(i % 3).step_by(if thorough { 1 } else { 3 }) {
            ev_ll(&mut t, 0, l1.0, l1.1, l2.0, l2.1);
        }
    }
    for r in 1..=(if thorough { 13 } else { 5 }) {
        for px in -(r + 1)..=(r + 1) {
            for py in -(r + 1)..=(r + 1) {
                ev_pos(&mut t, 0, (px + 1, py - 2), (1, -2), r);
            }
        }
    }
    for l in lines.iter().step_by(3) {
        for px in -w..=w {
            for py in -w..=w {
                ev_contains(&mut t, 0, (px, py), l.0, l.1);
            }
        }
    }
    let lattice = t.events;
    // ---- dyadic real-valued configurations (multiples of 2^-10, magnitude up to 1000)
    let n = if thorough { 40_000 } else { 3_000 };
    let s = 10u32;
    let co = |rng: &mut Rng| rng.range_i64(-1000 << 10, 1000 << 10) as i128;
    let ra = |rng: &mut Rng| rng.range_i64(1 << 6, 1000 << 10) as i128;
    for k in 0..n {
        match k % 5 {
            0 | 1 => {
                let c1 = (co(&mut rng), co(&mut rng));
                let c2 = if rng.chance(1, 2) { (c1.0 + rng.range_i64(-(300 << 10), 300 << 10) as i128, c1.1 + rng.range_i64(-(300 << 10), 300 << 10) as i128) } else { (co(&mut rng), co(&mut rng)) };
                ev_cc(&mut t, s, c1, ra(&mut rng), c2, ra(&mut rng), "dyadic");
            }
            2 => {
                let a = (co(&mut rng), co(&mut rng));
                let b = (a.0 + rng.range_i64(1 << 10, 500 << 10) as i128, a.1 + rng.range_i64(-(500 << 10), 500 << 10) as i128);
                ev_cl(&mut t, s, (co(&mut rng), co(&mut rng)), ra(&mut rng), a, b, "dyadic");
            }
            3 => {
                let a = (co(&mut rng), co(&mut rng));
                let b = (a.0 + rng.range_i64(1 << 10, 500 << 10) as i128, a.1 + rng.range_i64(-(500 << 10), 500 << 10) as i128);
                let c = (co(&mut rng), co(&mut rng));
                let d = (c.0 + rng.range_i64(-(500 << 10), 500 << 10) as i128, c.1 + rng.range_i64(1 << 10, 500 << 10) as i128);
                ev_ll(&mut t, s, a, b, c, d);
            }
            _ => {
                let c = (co(&mut rng), co(&mut rng));
                let r = ra(&mut rng);
                ev_pos(&mut t, s, (c.0 + rng.range_i64(-(1200 << 10), 1200 << 10) as i128, c.1 + rng.range_i64(-(1200 << 10), 1200 << 10) as i128), c, r);
            }
        }
    }
    // ---- nearly axis-parallel lines (normalised small coefficient between 1e-9 and 1e-6, not exactly 0) crossed by an
    // ordinary line at 45 degrees or more: multiples of 2^-20, magnitude up to 1000, either argument order
    let s20 = 20u32;
    let u20 = 1i128 << 20;
    for k in 0..(if thorough { 4000 } else { 600 }) {
        let x0 = rng.range_i64(-(900 << 20), 900 << 20) as i128;
        let dx = 3 + rng.below(2000) as i128; // 2.9e-6 .. 1.9e-3 over a height of 2000
        let (lo, hi) = (-1000 * u20, 1000 * u20);
        // ordinary line through (x0 - u, y1) and (x0 + v, y2), slope at most 1 in absolute value
        let (u, v) = (rng.range_i64(1 << 20, 90 << 20) as i128, rng.range_i64(1 << 20, 90 << 20) as i128);
        let y1 = rng.range_i64(-(900 << 20), 900 << 20) as i128;
        let y2 = (y1 + rng.range_i64(-(1 << 20), 1 << 20) as i128 * (u + v) / u20).clamp(-900 * u20, 900 * u20);
        let (mut a, mut b, mut c, mut d) = ((x0, lo), (x0 + if k % 2 == 0 { dx } else { -dx }, hi), (x0 - u, y1), (x0 + v, y2));
        if k % 4 >= 2 {
            // nearly horizontal instead: swap the axes
            a = (a.1, a.0); b = (b.1, b.0); c = (c.1, c.0); d = (d.1, d.0);
        }
        if k % 3 == 0 {
            ev_ll(&mut t, s20, c, d, a, b);
        } else {
            ev_ll(&mut t, s20, a, b, c, d);
        }
        if k % 5 == 0 {
            // the same steep line against a circle it crosses
            ev_cl(&mut t, s20, (if k % 4 >= 2 { y1 } else { x0 } + rng.range_i64(-(50 << 20), 50 << 20) as i128, if k % 4 >= 2 { x0 } else { y1 }), 200 * u20 + rng.below(1 << 24) as i128, a, b, "steep line");
        }
    }
    // ---- parallel(): exactly parallel lattice directions, and nearly parallel ones (k, k+1) against (k+1, k+2) whose
    // angle (about 1 / 2k^2 = 1e-6 .. 6e-6) is a thousand times the library's tolerance
    for k in 0..(if thorough { 1500 } else { 250 }) {
        let q = 300 + rng.below(420) as i128;
        let p0 = (rng.range_i64(-40, 40) as i128, rng.range_i64(-40, 40) as i128);
        let p1 = (rng.range_i64(-40, 40) as i128, rng.range_i64(-40, 40) as i128);
        let (u, v) = match k % 4 {
            0 => ((q, q + 1), (q + 1, q + 2)),
            1 => ((q + 1, q), (-(q + 2), -(q + 1))),
            2 => ((q, q + 1), (2 * q, 2 * q + 2)),     // exactly parallel
            _ => ((q, -(q + 1)), (-(q + 1), q + 2)),
        };
        ev_par(&mut t, 0, p0, (p0.0 + u.0, p0.1 + u.1), p1, (p1.0 + v.0, p1.1 + v.1));
    }
    for (i, l1) in lines.iter().enumerate() {
        for l2 in lines.iter().skip(i % 2).step_by(2) {
            ev_par(&mut t, 0, l1.0, l1.1, l2.0, l2.1);
        }
    }
    // ---- large circles against axis-parallel lines 2^-23 .. 2^-21 (1.2e-7 .. 4.8e-7) inside or outside tangency: far
    // outside the library's 1e-9, so the kind is exact, and a tangent point returned instead would be off the circle
    let s30 = 30u32;
    let u30 = 1i128 << 30;
    for k in 0..(if thorough { 2000 } else { 300 }) {
        // (everything stays within coordinates of 1e3)
        let c = (rng.range_i64(-(90 << 20), 90 << 20) as i128 * 1024, rng.range_i64(-(90 << 20), 90 << 20) as i128 * 1024);
        let r = rng.range_i64(500, 899) as i128 * u30 + rng.below(1 << 30) as i128;
        let delta = (1i128 << (7 + rng.below(3))) * if k % 2 == 0 { 1 } else { -1 }; // 2^-23, 2^-22, 2^-21 at scale 2^-30
        let off = r - delta; // distance of the line from the centre
        let w = rng.range_i64(1, 200) as i128 * u30;
        let (a, b) = match k % 4 {
            0 | 1 => ((c.0 - w, c.1 + off), (c.0 + 2 * w, c.1 + off)),   // horizontal, above
            _ => ((c.0 - off, c.1 - w), (c.0 - off, c.1 + 3 * w)),       // vertical, left
        };
        ev_cl(&mut t, s30, c, r, a, b, if delta > 0 { "large circle, line 1e-7 inside tangency" } else { "large circle, line 1e-7 outside tangency" });
    }
    // ---- constructed tangencies at arbitrary dyadic positions (Pythagorean triples), and near-tangencies
    let m = if thorough { 6_000 } else { 900 };
    for k in 0..m {
        let (a, b, h) = TRIPLES[k % TRIPLES.len()];
        let (a, b) = match (k / 6) % 4 { 0 => (a, b), 1 => (-b, a), 2 => (-a, -b), _ => (b, -a) };
        let kk = 1 + rng.below(60 << 6) as i128; // scale factor in units of 2^-10
        let c1 = (co(&mut rng) / 2, co(&mut rng) / 2);
        let c2 = (c1.0 + kk * a, c1.1 + kk * b); // distance kk * h
        let r1 = 1 + rng.below((kk * h) as u64 - 1).max(1) as i128;
        match k % 5 {
            0 => ev_cc(&mut t, s, c1, r1, c2, kk * h - r1, "outer tangency"),
            1 => ev_cc(&mut t, s, c1, kk * h + r1, c2, r1, "inner tangency"),
            2 => {
                // line tangent to the circle (c1, kk*h) at T = c1 + kk*(a, b), direction (-b, a)
                let tp = (c1.0 + kk * a, c1.1 + kk * b);
                let mm = 1 + rng.below(50) as i128;
                ev_cl(&mut t, s, c1, kk * h, (tp.0 + mm * b, tp.1 - mm * a), (tp.0 - 3 * mm * b, tp.1 + 3 * mm * a), "tangent line");
            }
            3 => {
                // circles overlapping by 2^-29 .. 2^-26 only (coordinates at scale 2^-30): the kind is inside the
                // tolerance band, the points must still lie on both circles
                let sh = 20u32;
                let delta = 1i128 << (1 + rng.below(4));
                ev_cc(&mut t, 30, (c1.0 << sh, c1.1 << sh), r1 << sh, (c2.0 << sh, c2.1 << sh), ((kk * h - r1) << sh) + delta, "shallow overlap");
            }
            _ => {
                // line cutting the circle by 2^-29 .. 2^-26 only
                let sh = 20u32;
                let delta = 1i128 << (1 + rng.below(4));
                let tp = (c1.0 + kk * a, c1.1 + kk * b);
                ev_cl(&mut t, 30, (c1.0 << sh, c1.1 << sh), ((kk * h) << sh) + delta, ((tp.0 + 7 * b) << sh, (tp.1 - 7 * a) << sh), ((tp.0 - 9 * b) << sh, (tp.1 + 9 * a) << sh), "shallow cut");
            }
        }
    }
    let ev = t.finish();
    println!("{}", json!({"events": ev, "runs": 1, "lattice_events": lattice, "dyadic_and_tangency_events": ev - lattice, "nontrivial": ev}));
}

pub fn gcd_i(a: i128, b: i128) -> i128 {
    if b == 0 { a } else { gcd_i(b, a % b) }
}
