//! C11 — rlib_gcd: gcd, lcm, egcd, crt.  record: exhaustive small tables per integer type, the egcd cube, the crt
//! table, and sampled large operands with witnesses, for GcdTrace.tla.
use crate::util::*;
use rlib_gcd::{crt, egcd, gcd, lcm};
use serde_json::{json, Value};

fn bi(v: i128) -> Value {
    let (neg, mag) = signed_limbs(v);
    json!({"neg": neg, "mag": mag})
}
fn bu(v: u128) -> Value {
    json!({"neg": false, "mag": limbs(v)})
}

fn egcd128(a: i128, b: i128) -> (i128, i128, i128) {
    if b == 0 {
        if a < 0 { (-a, -1, 0) } else { (a, 1, 0) }
    } else {
        let (g, x, y) = egcd128(b, a % b);
        (g, y, x - (a / b) * y)
    }
}

macro_rules! tab_signed {
    ($t:ty, $tw:expr, $name:expr) => {{
        let lo: i64 = -40;
        let hi: i64 = 40;
        for (fname, is_gcd) in [("gcd", true), ("lcm", false)] {
            let r = catch(|| {
                (lo..=hi).map(|a| (lo..=hi).map(|b| {
                    if !is_gcd && ((a == 0 && b == 0) || (a * b).abs() > <$t>::MAX as i64) {
                        return -1i64;
                    }
                    if is_gcd { gcd(a as $t, b as $t) as i64 } else { lcm(a as $t, b as $t) as i64 }
                }).collect::<Vec<i64>>()).collect::<Vec<_>>()
            });
            match r {
                Ok(rows) => $tw.ev(json!({"ev": "tab", "fn": fname, "ty": $name, "lo": lo, "hi": hi, "rows": rows})),
                Err(p) => $tw.ev(json!({"ev": "tab", "fn": fname, "ty": $name, "panic": p})),
            }
        }
    }};
}
macro_rules! tab_unsigned {
    ($t:ty, $tw:expr, $name:expr) => {{
        let lo: i64 = 0;
        let hi: i64 = 40;
        for (fname, is_gcd) in [("gcd", true), ("lcm", false)] {
            let r = catch(|| {
                (lo..=hi).map(|a| (lo..=hi).map(|b| {
                    if !is_gcd && ((a == 0 && b == 0) || (a * b) > <$t>::MAX as i64) {
                        return -1i64;
                    }
                    if is_gcd { gcd(a as $t, b as $t) as i64 } else { lcm(a as $t, b as $t) as i64 }
                }).collect::<Vec<i64>>()).collect::<Vec<_>>()
            });
            match r {
                Ok(rows) => $tw.ev(json!({"ev": "tab", "fn": fname, "ty": $name, "lo": lo, "hi": hi, "rows": rows})),
                Err(p) => $tw.ev(json!({"ev": "tab", "fn": fname, "ty": $name, "panic": p})),
            }
        }
    }};
}

macro_rules! cube {
    ($t:ty, $tw:expr, $name:expr, $k:expr) => {{
        let k: i64 = $k;
        let r = catch(|| {
            let mut rows = vec![];
            for a in -k..=k {
                for b in -k..=k {
                    if a == 0 && b == 0 {
                        continue;
                    }
                    for c in -k..=k {
                        match egcd(a as $t, b as $t, c as $t) {
                            Some((x, y)) => rows.push(json!([a, b, c, 1, x as i64, y as i64])),
                            None => rows.push(json!([a, b, c, 0, 0, 0])),
                        }
                    }
                }
            }
            rows
        });
        match r {
            Ok(rows) => $tw.ev(json!({"ev": "cube", "fn": "egcd", "ty": $name, "k": k, "rows": rows})),
            Err(p) => $tw.ev(json!({"ev": "cube", "fn": "egcd", "ty": $name, "panic": p})),
        }
    }};
}

macro_rules! crttab {
    ($t:ty, $tw:expr, $name:expr, $k:expr) => {{
        let k: i64 = $k;
        for m1 in 1..=k {
            let r = catch(|| {
                let mut rows = vec![];
                for m2 in 1..=k {
                    for a1 in 0..m1 {
                        for a2 in 0..m2 {
                            match crt(a1 as $t, m1 as $t, a2 as $t, m2 as $t) {
                                Some(z) => rows.push(json!([a1, m1, a2, m2, 1, z as i64])),
                                None => rows.push(json!([a1, m1, a2, m2, 0, 0])),
                            }
                        }
                    }
                }
                rows
            });
            match r {
                Ok(rows) => $tw.ev(json!({"ev": "crttab", "fn": "crt", "ty": $name, "m1": m1, "rows": rows})),
                Err(p) => $tw.ev(json!({"ev": "crttab", "fn": "crt", "ty": $name, "panic": p})),
            }
        }
    }};
}

fn biased(rng: &mut Rng, bits: u32) -> i128 {
    let raw = (((rng.u64() as u128) << 64) | rng.u64() as u128) >> (128 - 1 - rng.below(bits as u64) as u32);
    let v = match rng.below(10) {
        0 => 0,
        1 => 1,
        2 => (1i128 << (bits - 1)) - 1,
        3 => 1i128 << rng.below(bits as u64 - 1),
        _ => raw as i128,
    };
    if rng.chance(1, 2) { -v } else { v }
}

fn gcd_witness(ev: &mut Value, a: i128, b: i128) -> i128 {
    let (g, s, t) = egcd128(a, b);
    let (ca, cb) = if g == 0 { (0, 0) } else { (a / g, b / g) };
    ev["w_ca"] = bi(ca);
    ev["w_cb"] = bi(cb);
    ev["w_s"] = bi(s);
    ev["w_t"] = bi(t);
    g
}

/// gcd / lcm at the top of a type's range (operands in the upper half, next to MAX and to 2^(k-1)), where
/// doubling a remainder or taking an absolute value through the signed twin would overflow; `max` is the largest
/// operand used, lcm is only requested when it fits
fn edge(t: &mut TraceWriter, name: &str, max: i128, signed: bool,
        g: &dyn Fn(i128, i128) -> Result<i128, String>, l: &dyn Fn(i128, i128) -> Result<i128, String>) {
    let base = [max, max - 1, max - 2, max / 2, max / 2 + 1, max / 2 + 2, max / 3 * 2, max / 3 * 2 + 1, max / 4 * 3, max / 5 * 4 + 1, 0, 1, 2, 3, 6];
    for (i, &x) in base.iter().enumerate() {
        for (j, &y) in base.iter().enumerate() {
            if x == 0 && y == 0 { continue; }
            let (a, b) = if signed { match (i + j) % 4 { 0 => (x, y), 1 => (-x, y), 2 => (x, -y), _ => (-x, -y) } } else { (x, y) };
            let mut ev = json!({"ev": "big", "fn": "gcd", "a": bi(a), "b": bi(b), "ty": name, "edge": true});
            let gg = gcd_witness(&mut ev, a, b);
            match g(a, b) { Ok(v) => ev["res"] = bi(v), Err(p) => ev["panic"] = json!(p) }
            t.ev(ev);
            // lcm = |a| / g * |b| fits?
            if let Some(m) = (a.abs() / gg).checked_mul(b.abs()) {
                if m <= max {
                    let mut ev = json!({"ev": "big", "fn": "lcm", "a": bi(a), "b": bi(b), "ty": name, "edge": true});
                    let gg = gcd_witness(&mut ev, a, b);
                    ev["w_g"] = bi(gg);
                    match l(a, b) { Ok(v) => ev["res"] = bi(v), Err(p) => ev["panic"] = json!(p) }
                    t.ev(ev);
                }
            }
        }
    }
}

macro_rules! edge_ty {
    ($t:ty, $tw:expr, $name:expr, $signed:expr) => {
        edge(&mut $tw, $name, <$t>::MAX as i128, $signed,
             &|a, b| catch(|| gcd(a as $t, b as $t) as i128), &|a, b| catch(|| lcm(a as $t, b as $t) as i128));
    };
}

/// u128 above i128::MAX: pairs whose gcd has an evident witness
fn edge_u128(t: &mut TraceWriter) {
    for x in [u128::MAX, u128::MAX - 1, (1u128 << 127) + 1, 1u128 << 127, (1u128 << 127) + 6, u128::MAX / 3 * 2] {
        for (y, gv, ca, cb, s, tt) in [(0u128, x, 1u128, 0u128, 1i128, 0i128), (x, x, 1, 1, 1, 0), (1, 1, x, 1, 0, 1)] {
            let mut ev = json!({"ev": "big", "fn": "gcd", "a": bu(x), "b": bu(y), "ty": "u128", "edge": true,
                                "w_ca": bu(ca), "w_cb": bu(cb), "w_s": bi(s), "w_t": bi(tt)});
            match catch(|| gcd(x, y)) { Ok(v) => ev["res"] = bu(v), Err(p) => ev["panic"] = json!(p) }
            t.ev(ev);
            let mut ev = json!({"ev": "big", "fn": "gcd", "a": bu(y), "b": bu(x), "ty": "u128", "edge": true,
                                "w_ca": bu(cb), "w_cb": bu(ca), "w_s": bi(tt), "w_t": bi(s)});
            match catch(|| gcd(y, x)) { Ok(v) => ev["res"] = bu(v), Err(p) => ev["panic"] = json!(p) }
            t.ev(ev);
            let _ = gv;
        }
    }
}

pub fn record(seed: u64, tier: &str, out: &str) {
    let thorough = tier == "thorough";
    let mut rng = Rng::new(seed ^ 0xC11);
    let mut t = TraceWriter::create(out);
    tab_signed!(i8, t, "i8");
    tab_signed!(i16, t, "i16");
    tab_signed!(i32, t, "i32");
    tab_signed!(i64, t, "i64");
    tab_signed!(i128, t, "i128");
    tab_signed!(isize, t, "isize");
    tab_unsigned!(u8, t, "u8");
    tab_unsigned!(u16, t, "u16");
    tab_unsigned!(u32, t, "u32");
    tab_unsigned!(u64, t, "u64");
    tab_unsigned!(u128, t, "u128");
    tab_unsigned!(usize, t, "usize");
    cube!(i64, t, "i64", if thorough { 16 } else { 12 });
    cube!(i32, t, "i32", if thorough { 12 } else { 8 });
    cube!(i128, t, "i128", if thorough { 12 } else { 6 });
    crttab!(i64, t, "i64", if thorough { 36 } else { 18 });
    if thorough {
        crttab!(i32, t, "i32", 12);
        crttab!(i128, t, "i128", 12);
    }
    edge_ty!(i8, t, "i8", true);
    edge_ty!(i16, t, "i16", true);
    edge_ty!(i32, t, "i32", true);
    edge_ty!(i64, t, "i64", true);
    edge_ty!(isize, t, "isize", true);
    edge_ty!(i128, t, "i128", true);
    edge_ty!(u8, t, "u8", false);
    edge_ty!(u16, t, "u16", false);
    edge_ty!(u32, t, "u32", false);
    edge_ty!(u64, t, "u64", false);
    edge_ty!(usize, t, "usize", false);
    // u128: up to i128::MAX through the common path, above it with hand-made witnesses
    edge(&mut t, "u128", i128::MAX, false, &|a, b| catch(|| gcd(a as u128, b as u128) as i128), &|a, b| catch(|| lcm(a as u128, b as u128) as i128));
    edge_u128(&mut t);
    let tables = t.events;
    // sampled large operands
    let n = if thorough { 150_000 } else { 12_000 };
    for k in 0..n {
        match k % 6 {
            0 | 1 => {
                // gcd / lcm on i64 (|.| <= 2^20 .. 2^60) and on the wide types
                let wide = k % 12 >= 6;
                let bits = if wide { 100 } else { *rng.pick(&[21u32, 40, 60]) };
                let (mut a, mut b) = (biased(&mut rng, bits), biased(&mut rng, bits));
                if rng.chance(1, 3) {
                    // shared factor
                    let f = 1 + rng.below(1 << 16) as i128;
                    a = (a / f.max(1)) * f;
                    b = (b / f.max(1)) * f;
                }
                let is_lcm = k % 6 == 1;
                if is_lcm {
                    if a == 0 && b == 0 { continue; }
                    // the product must fit the type
                    let lim_bits = if wide { 62 } else { 30 };
                    a %= 1i128 << lim_bits;
                    b %= 1i128 << lim_bits;
                    if a == 0 && b == 0 { continue; }
                }
                let mut ev = json!({"ev": "big", "fn": if is_lcm { "lcm" } else { "gcd" }, "a": bi(a), "b": bi(b), "ty": if wide { "i128" } else { "i64" }});
                let g = gcd_witness(&mut ev, a, b);
                if is_lcm { ev["w_g"] = bi(g); }
                let r = catch(|| if wide {
                    if is_lcm { lcm(a, b) } else { gcd(a, b) }
                } else if is_lcm { lcm(a as i64, b as i64) as i128 } else { gcd(a as i64, b as i64) as i128 });
                match r { Ok(v) => ev["res"] = bi(v), Err(p) => ev["panic"] = json!(p) }
                t.ev(ev);
                if !wide && a >= 0 && b >= 0 {
                    // unsigned instantiation on the same operands
                    let mut ev = json!({"ev": "big", "fn": if is_lcm { "lcm" } else { "gcd" }, "a": bi(a), "b": bi(b), "ty": "u64"});
                    let g = gcd_witness(&mut ev, a, b);
                    if is_lcm { ev["w_g"] = bi(g); }
                    let r = catch(|| if is_lcm { lcm(a as u64, b as u64) } else { gcd(a as u64, b as u64) });
                    match r { Ok(v) => ev["res"] = bu(v as u128), Err(p) => ev["panic"] = json!(p) }
                    t.ev(ev);
                }
            }
            2 | 3 => {
                // egcd on i64, |a|,|b|,|c| <= 2^20, zero coefficients included
                let mut a = biased(&mut rng, 21);
                let mut b = biased(&mut rng, 21);
                if rng.chance(1, 8) { a = 0; }
                if rng.chance(1, 8) { b = 0; }
                if a == 0 && b == 0 { continue; }
                let (g, _, _) = egcd128(a, b);
                let c = if rng.chance(1, 2) { g * (rng.range_i64(-(1 << 20), 1 << 20) as i128 / g.max(1)) } else { biased(&mut rng, 21) };
                let mut ev = json!({"ev": "big", "fn": "egcd", "a": bi(a), "b": bi(b), "c": bi(c)});
                let g = gcd_witness(&mut ev, a, b);
                ev["w_g"] = bi(g);
                ev["w_k"] = bi(c.div_euclid(g));
                ev["w_rem"] = bi(c.rem_euclid(g));
                match catch(|| egcd(a as i64, b as i64, c as i64)) {
                    Ok(Some((x, y))) => { ev["some"] = json!(true); ev["x"] = bi(x as i128); ev["y"] = bi(y as i128); }
                    Ok(None) => { ev["some"] = json!(false); }
                    Err(p) => ev["panic"] = json!(p),
                }
                t.ev(ev);
            }
            _ => {
                // crt on i64, moduli <= 2^20: non-coprime, nested, equal
                let m1 = 1 + rng.below(1 << 20) as i128;
                let m2 = match rng.below(5) { 0 => m1, 1 => m1 * (1 + rng.below(8) as i128) % (1 << 20) + 1, 2 => (m1 / 2).max(1), _ => 1 + rng.below(1 << 20) as i128 };
                let a1 = rng.below(m1 as u64) as i128;
                let a2 = if rng.chance(1, 2) {
                    // compatible residue
                    let (g, _, _) = egcd128(m1, m2);
                    (a1 % g + g * (rng.below((m2 / g) as u64) as i128)) % m2
                } else { rng.below(m2 as u64) as i128 };
                let mut ev = json!({"ev": "big", "fn": "crt", "a1": bi(a1), "m1": bi(m1), "a2": bi(a2), "m2": bi(m2)});
                let g = gcd_witness(&mut ev, m1, m2);
                ev["w_g"] = bi(g);
                ev["w_k"] = bi((a2 - a1).div_euclid(g));
                ev["w_rem"] = bi((a2 - a1).rem_euclid(g));
                match catch(|| crt(a1 as i64, m1 as i64, a2 as i64, m2 as i64)) {
                    Ok(Some(z)) => {
                        let z = z as i128;
                        ev["some"] = json!(true);
                        ev["z"] = bi(z);
                        ev["w_k1"] = bi((z - a1).div_euclid(m1));
                        ev["w_k2"] = bi((z - a2).div_euclid(m2));
                    }
                    Ok(None) => ev["some"] = json!(false),
                    Err(p) => ev["panic"] = json!(p),
                }
                t.ev(ev);
            }
        }
    }
    let ev = t.finish();
    println!("{}", json!({"events": ev, "runs": 1, "table_events": tables, "big_events": ev - tables}));
}
