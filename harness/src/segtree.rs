//! C01/C02 — rlib_segtree::Segtree.  replay: TLC-emitted (A)+(B) states of SegtreeGen; record: traces for
//! SegtreeTrace.tla.  The item algebras mirror spec/segtree/SegAlg.tla: the crate's built-in items, the crate's
//! Combinator, and two lawful user-defined items (the crate's contract is the SegtreeItem trait):
//! HashAff (non-commutative polynomial hash under non-commuting affine maps) and SumAff.
use crate::util::*;
use rlib_segtree::segtree_items::{Combinator, Max, MaxAdd, Min, MinAdd, Sum, SumAdd};
use rlib_segtree::{Segtree, SegtreeItem};
use serde_json::{json, Value};
use std::cell::RefCell;
use std::collections::HashSet;
use std::fmt::Debug;

const Q: i64 = 5;
const X: i64 = 2;

fn xpow(k: i64) -> i64 {
    let mut r = 1;
    for _ in 0..k {
        r = r * X % Q;
    }
    r
}
fn g(len: i64) -> i64 {
    let mut r = 0;
    for _ in 0..len {
        r = (r * X + 1) % Q;
    }
    r
}

/// affine map c -> a*c + b
#[derive(Clone, Debug, PartialEq)]
pub struct Aff(pub i64, pub i64);

#[derive(Clone, Debug)]
pub struct HashAff {
    pub h: i64,
    pub len: i64,
    pa: i64,
    pb: i64,
}
impl Default for HashAff {
    fn default() -> Self {
        HashAff { h: 0, len: 0, pa: 1, pb: 0 }
    }
}
impl SegtreeItem<Aff> for HashAff {
    fn merge(l: &Self, r: &Self) -> Self {
        HashAff { h: (l.h * xpow(r.len) + r.h) % Q, len: l.len + r.len, pa: 1, pb: 0 }
    }
    fn modify(&mut self, m: &Aff) {
        self.h = (m.0 * self.h + m.1 * g(self.len)).rem_euclid(Q);
        // new after old
        let (a, b) = ((m.0 * self.pa).rem_euclid(Q), (m.0 * self.pb + m.1).rem_euclid(Q));
        self.pa = a;
        self.pb = b;
    }
    fn push(&mut self, l: &mut Self, r: &mut Self) {
        let m = Aff(self.pa, self.pb);
        l.modify(&m);
        r.modify(&m);
        self.pa = 1;
        self.pb = 0;
    }
}

/// The hash summaries under a single modifier, negation (x -> -x = (Q-1)*x): the modifier type carries no data
/// (zero-sized), the pending state is one flag.
#[derive(Clone, Debug)]
pub struct Flip;

#[derive(Clone, Debug)]
pub struct HashFlip {
    pub h: i64,
    pub len: i64,
    fl: bool,
}
impl Default for HashFlip {
    fn default() -> Self {
        HashFlip { h: 0, len: 0, fl: false }
    }
}
impl SegtreeItem<Flip> for HashFlip {
    fn merge(l: &Self, r: &Self) -> Self {
        HashFlip { h: (l.h * xpow(r.len) + r.h) % Q, len: l.len + r.len, fl: false }
    }
    fn modify(&mut self, _m: &Flip) {
        self.h = ((Q - 1) * self.h).rem_euclid(Q);
        self.fl = !self.fl;
    }
    fn push(&mut self, l: &mut Self, r: &mut Self) {
        if self.fl {
            l.modify(&Flip);
            r.modify(&Flip);
            self.fl = false;
        }
    }
}

#[derive(Clone, Debug)]
pub struct SumAff {
    pub v: i64,
    pub len: i64,
    pa: i64,
    pb: i64,
}
impl Default for SumAff {
    fn default() -> Self {
        SumAff { v: 0, len: 0, pa: 1, pb: 0 }
    }
}
impl SegtreeItem<Aff> for SumAff {
    fn merge(l: &Self, r: &Self) -> Self {
        SumAff { v: l.v + r.v, len: l.len + r.len, pa: 1, pb: 0 }
    }
    fn modify(&mut self, m: &Aff) {
        self.v = m.0 * self.v + m.1 * self.len;
        let (a, b) = (m.0 * self.pa, m.0 * self.pb + m.1);
        self.pa = a;
        self.pb = b;
    }
    fn push(&mut self, l: &mut Self, r: &mut Self) {
        let m = Aff(self.pa, self.pb);
        l.modify(&m);
        r.modify(&m);
        self.pa = 1;
        self.pb = 0;
    }
}

/// What the harness needs from an item type: build a leaf from a scalar, show the public summary in the
/// spec's shape, decode a modifier.
pub trait HItem: SegtreeItem<Self::Md> + Clone + Default + Debug {
    type Md: Debug + Clone;
    fn leaf(c: i64) -> Self;
    /// the same element carrying a junk pending-modifier field (public fields; a copy of a leaf read out of
    /// another tree looks like this)
    fn leaf_j(c: i64, j: i64) -> Self {
        let _ = j;
        Self::leaf(c)
    }
    fn obs(&self) -> Value;
    fn md(v: &Value) -> Self::Md;
}

impl HItem for HashAff {
    type Md = Aff;
    fn leaf(c: i64) -> Self {
        HashAff { h: c.rem_euclid(Q), len: 1, pa: 1, pb: 0 }
    }
    fn leaf_j(c: i64, j: i64) -> Self {
        if j == 1 { HashAff { h: c.rem_euclid(Q), len: 1, pa: 2, pb: 1 } } else { Self::leaf(c) }
    }
    fn obs(&self) -> Value {
        json!([self.h, self.len])
    }
    fn md(v: &Value) -> Aff {
        Aff(v[0].as_i64().unwrap(), v[1].as_i64().unwrap())
    }
}
impl HItem for HashFlip {
    type Md = Flip;
    fn leaf(c: i64) -> Self {
        HashFlip { h: c.rem_euclid(Q), len: 1, fl: false }
    }
    fn leaf_j(c: i64, j: i64) -> Self {
        HashFlip { h: c.rem_euclid(Q), len: 1, fl: j == 1 }
    }
    fn obs(&self) -> Value {
        json!([self.h, self.len])
    }
    fn md(_v: &Value) -> Flip {
        Flip
    }
}
impl HItem for SumAff {
    type Md = Aff;
    fn leaf(c: i64) -> Self {
        SumAff { v: c, len: 1, pa: 1, pb: 0 }
    }
    fn leaf_j(c: i64, j: i64) -> Self {
        if j == 1 { SumAff { v: c, len: 1, pa: 2, pb: 1 } } else { Self::leaf(c) }
    }
    fn obs(&self) -> Value {
        json!([self.v, self.len])
    }
    fn md(v: &Value) -> Aff {
        Aff(v[0].as_i64().unwrap(), v[1].as_i64().unwrap())
    }
}
macro_rules! plain_item {
    ($t:ident, $m:ty, $md:expr) => {
        impl HItem for $t<i64> {
            type Md = $m;
            fn leaf(c: i64) -> Self {
                <$t<i64>>::new(c)
            }
            fn obs(&self) -> Value {
                json!(self.v)
            }
            fn md(v: &Value) -> $m {
                $md(v)
            }
        }
    };
}
plain_item!(Min, (), |_v: &Value| ());
plain_item!(Max, (), |_v: &Value| ());
plain_item!(Sum, (), |_v: &Value| ());
macro_rules! add_item {
    ($t:ident) => {
        impl HItem for $t<i64> {
            type Md = i64;
            fn leaf(c: i64) -> Self {
                <$t<i64>>::new(c)
            }
            fn leaf_j(c: i64, j: i64) -> Self {
                $t { v: c, md: if j == 1 { 3 } else { 0 } }
            }
            fn obs(&self) -> Value {
                json!(self.v)
            }
            fn md(v: &Value) -> i64 {
                v.as_i64().unwrap()
            }
        }
    };
}
add_item!(MinAdd);
add_item!(MaxAdd);
impl HItem for SumAdd<i64> {
    type Md = i64;
    fn leaf(c: i64) -> Self {
        SumAdd::new(c)
    }
    fn leaf_j(c: i64, j: i64) -> Self {
        SumAdd { v: c, len: 1, md: if j == 1 { 3 } else { 0 } }
    }
    fn obs(&self) -> Value {
        json!([self.v, self.len])
    }
    fn md(v: &Value) -> i64 {
        v.as_i64().unwrap()
    }
}
impl<U: HItem, V: HItem<Md = U::Md>> HItem for Combinator<U, V> {
    type Md = U::Md;
    fn leaf(c: i64) -> Self {
        Combinator(U::leaf(c), V::leaf(c))
    }
    fn leaf_j(c: i64, j: i64) -> Self {
        Combinator(U::leaf_j(c, j), V::leaf_j(c, j))
    }
    fn obs(&self) -> Value {
        json!([self.0.obs(), self.1.obs()])
    }
    fn md(v: &Value) -> U::Md {
        U::md(v)
    }
}

/// evaluates a predicate of the spec's family on an observed summary
pub fn holds(pred: &Value, obs: &Value) -> bool {
    let mut c = obs;
    for p in arr(pred, "path") {
        c = &c[p.as_u64().unwrap() as usize - 1];
    }
    let k = geti(pred, "k");
    match gets(pred, "p") {
        "true" => true,
        "false" => false,
        "lenge" => c[1].as_i64().unwrap() >= k,
        "sumge" => c.as_i64().unwrap() >= k,
        "vsumge" => c[0].as_i64().unwrap() >= k,
        "maxge" => c.as_i64().unwrap() >= k,
        "minle" => c.as_i64().unwrap() <= k,
        p => panic!("harness: unknown predicate {}", p),
    }
}

fn apply_op<T: HItem>(t: &mut Option<Segtree<T, T::Md>>, op: &Value) {
    let a = op["a"].as_i64().unwrap_or(0);
    let b = op["b"].as_i64().unwrap_or(0);
    let j = op["j"].as_i64().unwrap_or(0);
    match gets(op, "op") {
        "new" => *t = Some(Segtree::new(a as usize, T::leaf_j(b, j))),
        "slice" => {
            let items: Vec<T> = arr(op, "m").iter().map(|c| T::leaf_j(c.as_i64().unwrap(), j)).collect();
            *t = Some(Segtree::from_slice(&items));
        }
        "iter" => {
            let items: Vec<T> = arr(op, "m").iter().map(|c| T::leaf_j(c.as_i64().unwrap(), j)).collect();
            *t = Some(Segtree::from_iter(items.into_iter()));
        }
        "set" => t.as_mut().unwrap().set(a as usize, T::leaf_j(b, j)),
        "modify" => t.as_mut().unwrap().modify(a as usize, b as usize, &T::md(&op["m"])),
        "ask" => {
            t.as_mut().unwrap().ask(a as usize, b as usize);
        }
        "lb" => {
            let p = &op["m"];
            t.as_mut().unwrap().lower_bound(a as usize, |it: &T| holds(p, &it.obs()));
        }
        "lbrev" => {
            let p = &op["m"];
            t.as_mut().unwrap().lower_bound_rev(a as usize, |it: &T| holds(p, &it.obs()));
        }
        o => panic!("harness: unknown op {}", o),
    }
}

struct Focus {
    ask: bool,
    lb: bool,
}

fn replay_case<T: HItem>(case: &Value, v: &mut Verdict, focus: &Focus, states: &mut HashSet<String>) {
    let hist = arr(case, "hist");
    let n = getu(case, "n");
    let mut t: Option<Segtree<T, T::Md>> = None;
    let r = catch(|| {
        for op in hist {
            apply_op::<T>(&mut t, op);
        }
    });
    if let Err(msg) = r {
        v.mismatch("segtree: panic while replaying the history", json!({"case": case, "panic": msg}));
        return;
    }
    let base = t.unwrap();
    {
        let (nodes, _) = base.verif_nodes();
        states.insert(format!("{}:{:?}", n, nodes));
    }
    let ask_tab = arr(case, "ask");
    if focus.ask {
        for l in 0..n {
            for r in l..n {
                let mut c = base.verif_clone();
                let want = &ask_tab[l][r];
                v.checks += 1;
                match catch(|| c.ask(l, r).obs()) {
                    Ok(got) if &got == want => {}
                    Ok(got) => v.mismatch("segtree.ask: wrong aggregate", json!({"case": case, "query": {"l": l, "r": r}, "got": got, "want": want})),
                    Err(m) => v.mismatch("segtree.ask: panic", json!({"case": case, "query": {"l": l, "r": r}, "panic": m})),
                }
            }
        }
        // debug(): the single-element asks, rendered
        let mut c = base.verif_clone();
        let mut c2 = base.verif_clone();
        v.checks += 1;
        match catch(|| (c.debug(), format!("{:?}", (0..n).map(|i| c2.ask(i, i)).collect::<Vec<_>>()))) {
            Ok((a, b)) if a == b => {}
            Ok((a, b)) => v.mismatch("segtree.debug: differs from the single-element asks", json!({"case": case, "got": a, "want": b})),
            Err(m) => v.mismatch("segtree.debug: panic", json!({"case": case, "panic": m})),
        }
    }
    if focus.lb {
        let preds = arr(case, "preds");
        for (dir, tab) in [("lower_bound", arr(case, "lb")), ("lower_bound_rev", arr(case, "lbrev"))] {
            for pos in 0..n {
                for (pi, p) in preds.iter().enumerate() {
                    let want = tab[pos][pi].as_i64().unwrap();
                    if want == -2 {
                        continue; // predicate not monotone from here: outside the quantifier
                    }
                    let mut c = base.verif_clone();
                    let seen: RefCell<Vec<Value>> = RefCell::new(vec![]);
                    let f = |it: &T| {
                        let o = it.obs();
                        let h = holds(p, &o);
                        seen.borrow_mut().push(o);
                        h
                    };
                    v.checks += 1;
                    let got = catch(|| if dir == "lower_bound" { c.lower_bound(pos, f) } else { c.lower_bound_rev(pos, f) });
                    let q = json!({"pos": pos, "pred": p});
                    match got {
                        Err(m) => v.mismatch(&format!("segtree.{}: panic", dir), json!({"case": case, "query": q, "panic": m})),
                        Ok(res) => {
                            let res = res.map(|x| x as i64).unwrap_or(-1);
                            if res != want {
                                v.mismatch(&format!("segtree.{}: wrong index", dir), json!({"case": case, "query": q, "got": res, "want": want}));
                            }
                            // every aggregate shown to the predicate is the in-order fold of [pos, x] (resp. [x, pos])
                            let allowed: Vec<&Value> = if dir == "lower_bound" {
                                (pos..n).map(|x| &ask_tab[pos][x]).collect()
                            } else {
                                (0..=pos).map(|x| &ask_tab[x][pos]).collect()
                            };
                            for s in seen.borrow().iter() {
                                if !allowed.contains(&s) {
                                    v.mismatch(&format!("segtree.{}: predicate shown a value that is not a range aggregate", dir),
                                               json!({"case": case, "query": q, "shown": s, "allowed": allowed}));
                                    break;
                                }
                            }
                        }
                    }
                }
            }
        }
    }
}

macro_rules! dispatch {
    ($alg:expr, $f:ident, $($args:expr),*) => {
        match $alg {
            "hashaff" => $f::<HashAff>($($args),*),
            "min" => $f::<Min<i64>>($($args),*),
            "max" => $f::<Max<i64>>($($args),*),
            "sum" => $f::<Sum<i64>>($($args),*),
            "minadd" => $f::<MinAdd<i64>>($($args),*),
            "maxadd" => $f::<MaxAdd<i64>>($($args),*),
            "sumadd" => $f::<SumAdd<i64>>($($args),*),
            "pair_minadd_maxadd" => $f::<Combinator<MinAdd<i64>, MaxAdd<i64>>>($($args),*),
            "pair_pair_min_max_sum" => $f::<Combinator<Combinator<Min<i64>, Max<i64>>, Sum<i64>>>($($args),*),
            "pair_hashaff_sumaff" => $f::<Combinator<HashAff, SumAff>>($($args),*),
            "hashflip" => $f::<HashFlip>($($args),*),
            a => panic!("harness: unknown algebra {}", a),
        }
    };
}

pub fn replay(cases_path: &str, out: &str, focus: &str) {
    let mut v = Verdict::new();
    let focus = Focus { ask: focus != "lb", lb: focus != "ask" };
    let mut states: HashSet<String> = HashSet::new();
    let mut nontrivial = 0u64;
    for_each_case(cases_path, |case| {
        v.cases += 1;
        if v.cases % 5003 == 1 {
            v.sample(case.clone());
        }
        if arr(&case, "hist").iter().any(|o| gets(o, "op") == "modify") && getu(&case, "n") >= 2 {
            nontrivial += 1;
        }
        let alg = gets(&case, "alg").to_string();
        dispatch!(alg.as_str(), replay_case, &case, &mut v, &focus, &mut states);
    });
    v.extra.insert("distinct_real_node_arrays".into(), json!(states.len()));
    v.extra.insert("model_states_replayed".into(), json!(v.cases));
    v.extra.insert("nontrivial_cases".into(), json!(nontrivial));
    v.write(out);
}

// ------------------------------------------------------------------------------------------- record

const ALGS: [&str; 11] = ["hashaff", "pair_hashaff_sumaff", "minadd", "sumadd", "maxadd", "pair_minadd_maxadd",
                          "pair_pair_min_max_sum", "min", "max", "sum", "hashflip"];

fn rand_md(rng: &mut Rng, alg: &str) -> Value {
    if alg == "hashflip" {
        json!([Q - 1, 0])
    } else if alg.contains("aff") {
        match rng.below(4) {
            0 => json!([0, rng.below(5)]),      // assign
            1 => json!([1, 1 + rng.below(4)]),  // add
            2 => json!([2, 0]),                 // double
            _ => json!([rng.below(3), rng.below(3)]),
        }
    } else if alg.contains("add") {
        json!(rng.range_i64(-3, 5))
    } else {
        json!(0)
    }
}

fn rand_pred(rng: &mut Rng, alg: &str, n: usize) -> Value {
    let k = |rng: &mut Rng, hi: i64| rng.range_i64(0, hi);
    let n = n as i64;
    match rng.below(8) {
        0 => json!({"p": "true", "k": 0, "path": []}),
        1 => json!({"p": "false", "k": 0, "path": []}),
        _ => match alg {
            "hashaff" | "hashflip" => json!({"p": "lenge", "k": k(rng, n + 1), "path": []}),
            "min" | "minadd" => json!({"p": "minle", "k": k(rng, 6) - 2, "path": []}),
            "max" | "maxadd" => json!({"p": "maxge", "k": k(rng, 8), "path": []}),
            "sum" => json!({"p": "sumge", "k": k(rng, 3 * n), "path": []}),
            "sumadd" => {
                if rng.chance(1, 2) {
                    json!({"p": "vsumge", "k": k(rng, 3 * n), "path": []})
                } else {
                    json!({"p": "lenge", "k": k(rng, n + 1), "path": []})
                }
            }
            "pair_minadd_maxadd" => {
                if rng.chance(1, 2) {
                    json!({"p": "minle", "k": k(rng, 6) - 2, "path": [1]})
                } else {
                    json!({"p": "maxge", "k": k(rng, 8), "path": [2]})
                }
            }
            "pair_pair_min_max_sum" => match rng.below(3) {
                0 => json!({"p": "minle", "k": k(rng, 4), "path": [1, 1]}),
                1 => json!({"p": "maxge", "k": k(rng, 5), "path": [1, 2]}),
                _ => json!({"p": "sumge", "k": k(rng, 3 * n), "path": [2]}),
            },
            _ => match rng.below(3) {
                0 => json!({"p": "vsumge", "k": k(rng, 3 * n), "path": [2]}),
                1 => json!({"p": "lenge", "k": k(rng, n + 1), "path": [1]}),
                _ => json!({"p": "lenge", "k": k(rng, n + 1), "path": [2]}),
            },
        },
    }
}

fn record_run<T: HItem>(alg: &str, rng: &mut Rng, t: &mut TraceWriter, n: usize, ops: usize, style: u64) {
    let scal = |rng: &mut Rng| rng.range_i64(0, 4);
    let mut tree: Segtree<T, T::Md>;
    match style % 3 {
        0 => {
            let c = scal(rng);
            tree = Segtree::new(n, T::leaf(c));
            t.ev(json!({"ev": "reset", "alg": alg, "how": "new", "n": n, "c": c}));
        }
        1 => {
            let cs: Vec<i64> = (0..n).map(|_| scal(rng)).collect();
            let items: Vec<T> = cs.iter().map(|&c| T::leaf(c)).collect();
            tree = Segtree::from_slice(&items);
            t.ev(json!({"ev": "reset", "alg": alg, "how": "slice", "n": n, "cs": cs}));
        }
        _ => {
            let cs: Vec<i64> = (0..n).map(|_| scal(rng)).collect();
            tree = Segtree::from_iter(cs.iter().map(|&c| T::leaf(c)).collect::<Vec<_>>().into_iter());
            t.ev(json!({"ev": "reset", "alg": alg, "how": "iter", "n": n, "cs": cs}));
        }
    }
    // phases: mixed / modifies only / queries only
    for k in 0..ops {
        if k == ops / 2 && style % 2 == 0 {
            // snapshot: rebuild the tree from copies of its own leaves (they carry whatever pending field they have)
            let r = catch(|| {
                let leaves: Vec<T> = (0..n).map(|i| tree.ask(i, i)).collect();
                let vals: Vec<Value> = leaves.iter().map(|x| x.obs()).collect();
                (Segtree::<T, T::Md>::from_slice(&leaves), vals)
            });
            match r {
                Ok((nt, vals)) => {
                    tree = nt;
                    t.ev(json!({"ev": "rebuild_from_leaves", "leaves": vals}));
                }
                Err(p) => {
                    t.ev(json!({"ev": "rebuild_from_leaves", "panic": p}));
                    return;
                }
            }
        }
        let phase = (k * 6 / ops.max(1)) % 3;
        let roll = rng.below(100);
        let (l, r) = {
            let a = rng.usize(n);
            let b = if rng.chance(1, 3) { (a + rng.usize(3)).min(n - 1) } else { rng.usize(n) };
            (a.min(b), a.max(b))
        };
        let kind = match phase {
            0 => if roll < 40 { "modify" } else if roll < 50 { "set" } else if roll < 75 { "ask" } else if roll < 88 { "lb" } else { "lbrev" },
            1 => if roll < 85 { "modify" } else { "set" },
            _ => if roll < 50 { "ask" } else if roll < 75 { "lb" } else { "lbrev" },
        };
        match kind {
            "modify" => {
                let m = rand_md(rng, alg);
                let res = catch(|| tree.modify(l, r, &T::md(&m)));
                let mut ev = json!({"ev": "modify", "l": l, "r": r, "m": m});
                if let Err(p) = res {
                    ev["panic"] = json!(p);
                    t.ev(ev);
                    return;
                }
                t.ev(ev);
            }
            "set" => {
                let c = scal(rng);
                let i = rng.usize(n);
                let res = catch(|| tree.set(i, T::leaf(c)));
                let mut ev = json!({"ev": "set", "i": i, "c": c});
                if let Err(p) = res {
                    ev["panic"] = json!(p);
                    t.ev(ev);
                    return;
                }
                t.ev(ev);
            }
            "ask" => match catch(|| tree.ask(l, r).obs()) {
                Ok(o) => t.ev(json!({"ev": "ask", "l": l, "r": r, "res": o})),
                Err(p) => {
                    t.ev(json!({"ev": "ask", "l": l, "r": r, "panic": p}));
                    return;
                }
            },
            _ => {
                let p = rand_pred(rng, alg, n);
                let pos = rng.usize(n);
                let seen: RefCell<Vec<Value>> = RefCell::new(vec![]);
                let f = |it: &T| {
                    let o = it.obs();
                    let h = holds(&p, &o);
                    seen.borrow_mut().push(o);
                    h
                };
                let res = catch(|| if kind == "lb" { tree.lower_bound(pos, f) } else { tree.lower_bound_rev(pos, f) });
                match res {
                    Ok(x) => t.ev(json!({"ev": kind, "pos": pos, "pred": p, "res": x.map(|v| v as i64).unwrap_or(-1), "seen": *seen.borrow()})),
                    Err(m) => {
                        t.ev(json!({"ev": kind, "pos": pos, "pred": p, "panic": m}));
                        return;
                    }
                }
            }
        }
    }
}

pub fn record(seed: u64, tier: &str, out: &str) {
    let thorough = tier == "thorough";
    let mut rng = Rng::new(seed ^ 0xC01);
    let mut t = TraceWriter::create(out);
    let sizes: [usize; 14] = [1, 2, 3, 5, 7, 8, 9, 15, 16, 17, 31, 33, 64, 130];
    let mut runs = 0u64;
    let rounds = if thorough { 40 } else { 8 };
    for round in 0..rounds {
        for (ai, alg) in ALGS.iter().enumerate() {
            let n = if round == 0 { sizes[(ai * 3 + 1) % sizes.len()] } else { *rng.pick(&sizes) };
            let ops = if thorough { 300 + rng.usize(300) } else { 180 };
            runs += 1;
            dispatch!(*alg, record_run, alg, &mut rng, &mut t, n, ops, round as u64 + ai as u64);
        }
    }
    let ev = t.finish();
    println!("{}", json!({"events": ev, "runs": runs, "algebras": ALGS.len()}));
}
