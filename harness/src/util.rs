//! Shared helpers of the conformance harness: deterministic PRNG (independent of rlib_rand, which is
//! itself under test), ndjson trace writer, reader for TLC-emitted cases, verdict collector.
use serde_json::{json, Value};
use std::fs::File;
use std::io::{BufRead, BufReader, BufWriter, Write};

/// splitmix64-seeded xoshiro256**
pub struct Rng {
    s: [u64; 4],
}

impl Rng {
    pub fn new(seed: u64) -> Self {
        let mut z = seed.wrapping_add(0x9E3779B97F4A7C15);
        let mut s = [0u64; 4];
        for x in s.iter_mut() {
            z = z.wrapping_add(0x9E3779B97F4A7C15);
            let mut y = z;
            y = (y ^ (y >> 30)).wrapping_mul(0xBF58476D1CE4E5B9);
            y = (y ^ (y >> 27)).wrapping_mul(0x94D049BB133111EB);
            *x = y ^ (y >> 31);
        }
        Rng { s }
    }
    pub fn u64(&mut self) -> u64 {
        let r = self.s[1].wrapping_mul(5).rotate_left(7).wrapping_mul(9);
        let t = self.s[1] << 17;
        self.s[2] ^= self.s[0];
        self.s[3] ^= self.s[1];
        self.s[1] ^= self.s[2];
        self.s[0] ^= self.s[3];
        self.s[2] ^= t;
        self.s[3] = self.s[3].rotate_left(45);
        r
    }
    /// uniform in 0..n (n > 0)
    pub fn below(&mut self, n: u64) -> u64 {
        ((self.u64() as u128 * n as u128) >> 64) as u64
    }
    pub fn usize(&mut self, n: usize) -> usize {
        self.below(n as u64) as usize
    }
    /// uniform in lo..=hi
    pub fn range_i64(&mut self, lo: i64, hi: i64) -> i64 {
        let span = (hi as i128 - lo as i128 + 1) as u128;
        let r = ((self.u64() as u128) << 64 | self.u64() as u128) % span;
        (lo as i128 + r as i128) as i64
    }
    pub fn chance(&mut self, num: u64, den: u64) -> bool {
        self.below(den) < num
    }
    pub fn pick<'a, T>(&mut self, xs: &'a [T]) -> &'a T {
        &xs[self.usize(xs.len())]
    }
}

pub struct TraceWriter {
    w: BufWriter<File>,
    pub events: u64,
}

impl TraceWriter {
    pub fn create(path: &str) -> Self {
        TraceWriter {
            w: BufWriter::with_capacity(1 << 20, File::create(path).expect("create trace")),
            events: 0,
        }
    }
    pub fn ev(&mut self, v: Value) {
        serde_json::to_writer(&mut self.w, &v).unwrap();
        self.w.write_all(b"\n").unwrap();
        self.events += 1;
    }
    pub fn finish(mut self) -> u64 {
        self.w.flush().unwrap();
        self.events
    }
}

/// Lines written by TLC's CSVWrite("%1$s", <<ToJson(x)>>) are JSON string literals holding JSON.
pub fn read_cases(path: &str) -> Vec<Value> {
    let f = BufReader::new(File::open(path).unwrap_or_else(|e| panic!("open {}: {}", path, e)));
    let mut out = Vec::new();
    for line in f.lines() {
        let line = line.unwrap();
        let t = line.trim();
        if t.is_empty() {
            continue;
        }
        let v: Value = serde_json::from_str(t).unwrap_or_else(|e| panic!("bad case line {}: {}", t, e));
        match v {
            Value::String(s) => out.push(serde_json::from_str(&s).unwrap_or_else(|e| panic!("bad inner {}: {}", s, e))),
            other => out.push(other),
        }
    }
    out
}

/// Streaming variant for big case files.
pub fn for_each_case(path: &str, mut f: impl FnMut(Value)) {
    let rd = BufReader::new(File::open(path).unwrap_or_else(|e| panic!("open {}: {}", path, e)));
    for line in rd.lines() {
        let line = line.unwrap();
        let t = line.trim();
        if t.is_empty() {
            continue;
        }
        let v: Value = serde_json::from_str(t).unwrap_or_else(|e| panic!("bad case line {}: {}", t, e));
        match v {
            Value::String(s) => f(serde_json::from_str(&s).unwrap_or_else(|e| panic!("bad inner {}: {}", s, e))),
            other => f(other),
        }
    }
}

/// Result of a replay: how many cases / individual comparisons were made, and every disagreement
/// between the real code and what the specification demanded.
#[derive(Default)]
pub struct Verdict {
    pub cases: u64,
    pub checks: u64,
    pub mismatches: Vec<Value>,
    pub samples: Vec<Value>,
    pub extra: serde_json::Map<String, Value>,
}

impl Verdict {
    pub fn new() -> Self {
        Default::default()
    }
    /// `key` names the failing input class (used to match known findings); `detail` is the replayable case.
    pub fn mismatch(&mut self, key: &str, detail: Value) {
        let seen = self.mismatches.iter().filter(|m| m["key"] == key).count();
        if seen < 3 && self.mismatches.len() < 300 {
            self.mismatches.push(json!({"key": key, "detail": detail}));
        } else {
            let c = self.extra.entry("mismatches_not_listed").or_insert(json!(0));
            *c = json!(c.as_u64().unwrap() + 1);
        }
    }
    pub fn sample(&mut self, v: Value) {
        if self.samples.len() < 3 {
            self.samples.push(v);
        }
    }
    pub fn write(&self, path: &str) {
        let v = json!({
            "cases": self.cases,
            "checks": self.checks,
            "mismatches": self.mismatches,
            "samples": self.samples,
            "extra": self.extra,
        });
        std::fs::write(path, serde_json::to_vec_pretty(&v).unwrap()).unwrap();
    }
}

pub fn arg_value(args: &[String], name: &str) -> Option<String> {
    args.iter().position(|a| a == name).and_then(|i| args.get(i + 1).cloned())
}

pub fn geti(v: &Value, k: &str) -> i64 {
    v[k].as_i64().unwrap_or_else(|| panic!("field {} missing in {}", k, v))
}
pub fn getu(v: &Value, k: &str) -> usize {
    geti(v, k) as usize
}
pub fn gets<'a>(v: &'a Value, k: &str) -> &'a str {
    v[k].as_str().unwrap_or_else(|| panic!("field {} missing in {}", k, v))
}
pub fn arr<'a>(v: &'a Value, k: &str) -> &'a Vec<Value> {
    v[k].as_array().unwrap_or_else(|| panic!("array {} missing in {}", k, v))
}

/// Run `f`, turning a panic into Err(message); panics of the code under test are data.
pub fn catch<T>(f: impl FnOnce() -> T) -> Result<T, String> {
    let r = std::panic::catch_unwind(std::panic::AssertUnwindSafe(f));
    r.map_err(|e| {
        if let Some(s) = e.downcast_ref::<&str>() {
            s.to_string()
        } else if let Some(s) = e.downcast_ref::<String>() {
            s.clone()
        } else {
            "panic".to_string()
        }
    })
}

pub fn quiet_panics() {
    std::panic::set_hook(Box::new(|_| {}));
}

/// 12-bit little-endian limbs of a magnitude, by bit slicing only (no code shared with the library under test)
pub fn limbs(mut m: u128) -> Vec<u32> {
    let mut out = vec![];
    while m != 0 {
        out.push((m & 0xFFF) as u32);
        m >>= 12;
    }
    out
}

pub fn signed_limbs(v: i128) -> (bool, Vec<u32>) {
    (v < 0, limbs(v.unsigned_abs()))
}
