//! C09 — rlib_io::Writer.  replay: TLC-emitted (A)+(B) states of WriterGen; record: traces for WriterTrace.tla.
use crate::reader::Scripted;
use crate::util::*;
use rlib_io::{Reader, Writer};
use serde_json::{json, Value};
use std::cell::{Cell, RefCell};
use std::io::{self, Write};
use std::rc::Rc;

/// A lawful but adversarial sink: accepts only part of what is offered, raises Interrupted.
#[derive(Clone, Copy, Debug, PartialEq)]
pub enum SinkMode {
    All,
    OneByte,
    Half,
    Random,
}

pub struct Sink {
    data: Rc<RefCell<Vec<u8>>>,
    mode: SinkMode,
    rng: Rng,
    toggle: bool,
}

impl Sink {
    pub fn new(data: Rc<RefCell<Vec<u8>>>, mode: SinkMode, seed: u64) -> Self {
        Sink { data, mode, rng: Rng::new(seed), toggle: false }
    }
}

impl Write for Sink {
    fn write(&mut self, buf: &[u8]) -> io::Result<usize> {
        if buf.is_empty() {
            return Ok(0);
        }
        let k = match self.mode {
            SinkMode::All => buf.len(),
            SinkMode::OneByte => 1,
            SinkMode::Half => (buf.len() + 1) / 2,
            SinkMode::Random => {
                self.toggle = !self.toggle;
                if self.toggle && self.rng.chance(1, 3) {
                    return Err(io::Error::new(io::ErrorKind::Interrupted, "scripted EINTR"));
                }
                1 + self.rng.usize(buf.len())
            }
        };
        self.data.borrow_mut().extend_from_slice(&buf[..k]);
        Ok(k)
    }
    fn flush(&mut self) -> io::Result<()> {
        Ok(())
    }
}

fn bytes_of(v: &Value) -> Vec<u8> {
    v.as_array().unwrap().iter().map(|x| x.as_u64().unwrap() as u8).collect()
}

fn write_small_int(w: &mut Writer, v: i64, variant: u64) {
    // every width that can hold the value, rotating with the case number
    let mut opts: Vec<u8> = vec![2, 3, 4, 5];
    if v >= i8::MIN as i64 && v <= i8::MAX as i64 {
        opts.push(0);
    }
    if v >= i16::MIN as i64 && v <= i16::MAX as i64 {
        opts.push(1);
    }
    if v >= 0 {
        opts.extend_from_slice(&[8, 9, 10, 11]);
        if v <= u8::MAX as i64 {
            opts.push(6);
        }
        if v <= u16::MAX as i64 {
            opts.push(7);
        }
    }
    match opts[(variant % opts.len() as u64) as usize] {
        0 => w.write(&(v as i8)),
        1 => w.write(&(v as i16)),
        2 => w.write(&(v as i32)),
        3 => w.write(&v),
        4 => w.write(&(v as i128)),
        5 => w.write(&(v as isize)),
        6 => w.write(&(v as u8)),
        7 => w.write(&(v as u16)),
        8 => w.write(&(v as u32)),
        9 => w.write(&(v as u64)),
        10 => w.write(&(v as u128)),
        _ => w.write(&(v as usize)),
    }
}

fn apply_item(w: &mut Writer, it: &Value, variant: u64) {
    match gets(it, "k") {
        "s" => {
            let s = String::from_utf8(bytes_of(&it["v"])).unwrap();
            if variant % 2 == 0 {
                w.write(&s)
            } else {
                w.write(&s.as_str())
            }
        }
        "c" => w.write_char(it["v"].as_u64().unwrap() as u8 as char),
        "i" => write_small_int(w, it["v"].as_i64().unwrap(), variant),
        "q" => {
            // the generator's vectors are <<int, int, string>>: the crate's tuple impl
            let v = arr(it, "v");
            let a = v[0]["v"].as_i64().unwrap();
            let b = v[1]["v"].as_i64().unwrap();
            let s = String::from_utf8(bytes_of(&v[2]["v"])).unwrap();
            match variant % 3 {
                0 => w.write(&(a, b, s)),
                1 => w.write(&(a as i32, b as i128, s.as_str())),
                _ => w.write(&(a as isize, b as i16, s)),
            }
        }
        "f" => w.flush(),
        k => panic!("harness: unknown item kind {}", k),
    }
}

pub fn replay(cases_path: &str, out: &str) {
    let mut v = Verdict::new();
    let debug_build = cfg!(debug_assertions);
    let bufsize = Writer::VERIF_BUF_SIZE;
    let mut nontrivial = 0u64;
    let mut skipped = 0u64;
    for_each_case(cases_path, |case| {
        if case["debug"].as_bool().unwrap() != debug_build {
            skipped += 1;
            return;
        }
        v.cases += 1;
        let hist = arr(&case, "hist");
        let want = bytes_of(&case["want"]);
        if want.len() > bufsize {
            nontrivial += 1;
        }
        if v.cases % 4001 == 1 {
            v.sample(case.clone());
        }
        for (mi, mode) in [SinkMode::All, SinkMode::OneByte, SinkMode::Random].iter().enumerate() {
            for ending in ["flush", "drop"] {
                let data = Rc::new(RefCell::new(Vec::new()));
                let sink = Sink::new(data.clone(), *mode, v.cases);
                let res = catch(|| {
                    let mut w = Writer::new(Box::new(sink));
                    for (i, it) in hist.iter().enumerate() {
                        apply_item(&mut w, it, v.cases + i as u64 + mi as u64);
                    }
                    if ending == "flush" {
                        w.flush();
                        let got = data.borrow().clone();
                        std::mem::forget(w); // the sink content *after flush* is the observable; no drop
                        got
                    } else {
                        drop(w);
                        let got = data.borrow().clone();
                        got
                    }
                });
                v.checks += 1;
                match res {
                    Err(msg) => v.mismatch("writer: panic", json!({"case": case, "sink_mode": format!("{:?}", mode), "ending": ending, "panic": msg, "buf_size": bufsize})),
                    Ok(got) if got != want => v.mismatch(&format!("writer.{}: sink differs from the formatted bytes", ending),
                                                         json!({"case": case, "sink_mode": format!("{:?}", mode), "ending": ending, "got": got, "want": want, "buf_size": bufsize, "debug_build": debug_build})),
                    _ => {}
                }
            }
        }
    });
    v.extra.insert("buf_size".into(), json!(bufsize));
    v.extra.insert("debug_build".into(), json!(debug_build));
    v.extra.insert("nontrivial_cases".into(), json!(nontrivial));
    v.extra.insert("cases_for_other_profile_skipped".into(), json!(skipped));
    v.write(out);
}

// ------------------------------------------------------------------------------------------- record

#[derive(Clone, Debug)]
enum Item {
    S(String),
    C(char),
    I(i128, u8),  // value, type index 0..5 = i8,i16,i32,i64,i128,isize
    U(u128, u8),  // 0..5 = u8,u16,u32,u64,u128,usize
    VecI64(Vec<i64>),
    VecU32(Vec<u32>),
    VecStr(Vec<String>),
    Tup(Vec<Item>), // arity 2..8, written through the crate's tuple impls for fixed type patterns
}

fn int_json(neg: bool, mag: u128, dec: String) -> Value {
    json!({"k": "i", "neg": neg, "mag": limbs(mag), "w_dec": dec.bytes().map(|b| b as u32).collect::<Vec<_>>()})
}

fn item_json(it: &Item) -> Value {
    match it {
        Item::S(s) => json!({"k": "s", "v": s.bytes().map(|b| b as u32).collect::<Vec<_>>()}),
        Item::C(c) => json!({"k": "c", "v": *c as u32}),
        Item::I(v, _) => int_json(*v < 0, v.unsigned_abs(), v.to_string()),
        Item::U(v, _) => int_json(false, *v, v.to_string()),
        Item::VecI64(xs) => json!({"k": "q", "v": xs.iter().map(|x| item_json(&Item::I(*x as i128, 3))).collect::<Vec<_>>()}),
        Item::VecU32(xs) => json!({"k": "q", "v": xs.iter().map(|x| item_json(&Item::U(*x as u128, 2))).collect::<Vec<_>>()}),
        Item::VecStr(xs) => json!({"k": "q", "v": xs.iter().map(|x| item_json(&Item::S(x.clone()))).collect::<Vec<_>>()}),
        Item::Tup(xs) => json!({"k": "q", "v": xs.iter().map(item_json).collect::<Vec<_>>()}),
    }
}

fn write_item(w: &mut Writer, it: &Item) {
    match it {
        Item::S(s) => {
            if s.len() % 2 == 0 {
                w.write(s)
            } else {
                w.write(&s.as_str())
            }
        }
        Item::C(c) => w.write_char(*c),
        Item::I(v, t) => match t {
            0 => w.write(&(*v as i8)),
            1 => w.write(&(*v as i16)),
            2 => w.write(&(*v as i32)),
            3 => w.write(&(*v as i64)),
            4 => w.write(v),
            _ => w.write(&(*v as isize)),
        },
        Item::U(v, t) => match t {
            0 => w.write(&(*v as u8)),
            1 => w.write(&(*v as u16)),
            2 => w.write(&(*v as u32)),
            3 => w.write(&(*v as u64)),
            4 => w.write(v),
            _ => w.write(&(*v as usize)),
        },
        Item::VecI64(xs) => w.write(xs),
        Item::VecU32(xs) => w.write(xs),
        Item::VecStr(xs) => w.write(xs),
        Item::Tup(xs) => write_tuple(w, xs),
    }
}

fn as_i64(it: &Item) -> i64 {
    if let Item::I(v, _) = it { *v as i64 } else { unreachable!() }
}
fn as_u64(it: &Item) -> u64 {
    if let Item::U(v, _) = it { *v as u64 } else { unreachable!() }
}
fn as_str(it: &Item) -> String {
    if let Item::S(s) = it { s.clone() } else { unreachable!() }
}

/// tuples of arity 2..8 with the fixed pattern (i64, u64, String, i64, u64, String, i64, u64)
fn write_tuple(w: &mut Writer, xs: &[Item]) {
    match xs.len() {
        2 => w.write(&(as_i64(&xs[0]), as_u64(&xs[1]))),
        3 => w.write(&(as_i64(&xs[0]), as_u64(&xs[1]), as_str(&xs[2]))),
        4 => w.write(&(as_i64(&xs[0]), as_u64(&xs[1]), as_str(&xs[2]), as_i64(&xs[3]))),
        5 => w.write(&(as_i64(&xs[0]), as_u64(&xs[1]), as_str(&xs[2]), as_i64(&xs[3]), as_u64(&xs[4]))),
        6 => w.write(&(as_i64(&xs[0]), as_u64(&xs[1]), as_str(&xs[2]), as_i64(&xs[3]), as_u64(&xs[4]), as_str(&xs[5]))),
        7 => w.write(&(as_i64(&xs[0]), as_u64(&xs[1]), as_str(&xs[2]), as_i64(&xs[3]), as_u64(&xs[4]), as_str(&xs[5]), as_i64(&xs[6]))),
        _ => w.write(&(as_i64(&xs[0]), as_u64(&xs[1]), as_str(&xs[2]), as_i64(&xs[3]), as_u64(&xs[4]), as_str(&xs[5]), as_i64(&xs[6]), as_u64(&xs[7]))),
    }
}

fn rand_signed(rng: &mut Rng, t: u8) -> i128 {
    let bits: u32 = [8, 16, 32, 64, 128, 64][t as usize];
    let min: i128 = if bits == 128 { i128::MIN } else { -(1i128 << (bits - 1)) };
    let max: i128 = if bits == 128 { i128::MAX } else { (1i128 << (bits - 1)) - 1 };
    let raw = ((rng.u64() as u128) << 64) | rng.u64() as u128;
    match rng.below(12) {
        0 => min,
        1 => max,
        2 => 0,
        3 => -1,
        4 => 1,
        5 => min + 1 + rng.below(3) as i128,
        6 => {
            // 9 / 10 / 99 / 100 ... and their negatives, clipped to the type
            let mut p: i128 = 1;
            for _ in 0..rng.below(39) {
                if p > max / 10 {
                    break;
                }
                p *= 10;
            }
            let v = p - rng.below(2) as i128;
            if rng.chance(1, 2) { -v } else { v }
        }
        7 => {
            let k = rng.below(bits as u64 - 1) as u32;
            let v = (1i128 << k) - 1 + rng.below(3) as i128;
            let v = v.min(max);
            if rng.chance(1, 2) { -v } else { v }
        }
        _ => {
            let bl = 1 + rng.below(bits as u64 - 1) as u32;
            let m = (raw >> (128 - bl)) as i128;
            if rng.chance(1, 2) { -m } else { m }
        }
    }
}

fn rand_unsigned(rng: &mut Rng, t: u8) -> u128 {
    let bits: u32 = [8, 16, 32, 64, 128, 64][t as usize];
    let max: u128 = if bits == 128 { u128::MAX } else { (1u128 << bits) - 1 };
    let raw = ((rng.u64() as u128) << 64) | rng.u64() as u128;
    match rng.below(10) {
        0 => 0,
        1 => max,
        2 => 1,
        3 => max - rng.below(3) as u128,
        4 => {
            let mut p: u128 = 1;
            for _ in 0..rng.below(39) {
                if p > max / 10 {
                    break;
                }
                p *= 10;
            }
            p - rng.below(2) as u128
        }
        5 => {
            let k = rng.below(bits as u64) as u32;
            ((1u128 << k) - 1 + rng.below(3) as u128).min(max)
        }
        _ => raw >> (128 - (1 + rng.below(bits as u64) as u32)),
    }
}

fn rand_word(rng: &mut Rng, max: usize) -> String {
    let len = 1 + rng.usize(max);
    (0..len).map(|_| (33 + rng.below(94) as u8) as char).collect()
}

/// `tokens_only`: produce a text that a Reader can parse back (items separated by whitespace chars).
fn rand_item(rng: &mut Rng, tokens_only: bool) -> Item {
    match rng.below(20) {
        0..=6 => {
            let t = rng.below(6) as u8;
            Item::I(rand_signed(rng, t), t)
        }
        7..=12 => {
            let t = rng.below(6) as u8;
            Item::U(rand_unsigned(rng, t), t)
        }
        13 => Item::VecI64((0..rng.usize(6)).map(|_| rand_signed(rng, 3) as i64).collect()),
        14 => Item::VecU32((0..1 + rng.usize(5)).map(|_| rand_unsigned(rng, 2) as u32).collect()),
        15 => Item::VecStr((0..1 + rng.usize(4)).map(|_| rand_word(rng, 12)).collect()),
        16 | 17 => {
            let n = 2 + rng.usize(7);
            Item::Tup((0..n).map(|i| match i % 3 {
                0 => Item::I(rand_signed(rng, 3), 3),
                1 => Item::U(rand_unsigned(rng, 3), 3),
                _ => Item::S(rand_word(rng, 10)),
            }).collect())
        }
        _ => {
            if tokens_only {
                Item::S(rand_word(rng, 30))
            } else {
                // arbitrary ASCII text incl. spaces, newlines, empty
                let len = match rng.below(6) { 0 => 0, 1 => 1 + rng.usize(300), _ => rng.usize(40) };
                Item::S((0..len).map(|_| match rng.below(10) { 0 => ' ', 1 => '\n', _ => (33 + rng.below(94) as u8) as char }).collect())
            }
        }
    }
}

fn flat_values(it: &Item, out: &mut Vec<Item>) {
    match it {
        Item::C(_) => {}
        Item::VecI64(xs) => out.extend(xs.iter().map(|x| Item::I(*x as i128, 3))),
        Item::VecU32(xs) => out.extend(xs.iter().map(|x| Item::U(*x as u128, 2))),
        Item::VecStr(xs) => out.extend(xs.iter().map(|x| Item::S(x.clone()))),
        Item::Tup(xs) => xs.iter().for_each(|x| flat_values(x, out)),
        other => out.push(other.clone()),
    }
}

fn read_back(r: &mut Reader, it: &Item) -> Value {
    match it {
        Item::S(_) => json!({"k": "s", "v": r.read::<String>().bytes().map(|b| b as u32).collect::<Vec<_>>()}),
        Item::I(_, t) => {
            let v: i128 = match t {
                0 => r.read::<i8>() as i128,
                1 => r.read::<i16>() as i128,
                2 => r.read::<i32>() as i128,
                3 => r.read::<i64>() as i128,
                4 => r.read::<i128>(),
                _ => r.read::<isize>() as i128,
            };
            json!({"k": "i", "neg": v < 0, "mag": limbs(v.unsigned_abs())})
        }
        Item::U(_, t) => {
            let v: u128 = match t {
                0 => r.read::<u8>() as u128,
                1 => r.read::<u16>() as u128,
                2 => r.read::<u32>() as u128,
                3 => r.read::<u64>() as u128,
                4 => r.read::<u128>(),
                _ => r.read::<usize>() as u128,
            };
            json!({"k": "i", "neg": false, "mag": limbs(v)})
        }
        _ => unreachable!(),
    }
}

/// decimal boundary patterns of one integer type: 10^k, 10^k +- 1, d * 10^k, 10^k + 10^j, repeated digits
fn decimal_sweep(signed: bool, t_idx: u8) -> Vec<Item> {
    let bits: u32 = [8, 16, 32, 64, 128, 64][t_idx as usize];
    let max: u128 = if signed { (1u128 << (bits - 1)) - 1 } else if bits == 128 { u128::MAX } else { (1u128 << bits) - 1 };
    let mut vals: Vec<u128> = vec![0, max, max - 1];
    let mut p: u128 = 1;
    let mut pows = vec![];
    loop {
        pows.push(p);
        for d in 1..=9u128 {
            if let Some(v) = p.checked_mul(d) {
                vals.extend_from_slice(&[v, v.saturating_sub(1), v.saturating_add(1)]);
            }
        }
        // repeated digit and "1 followed by zeros then 1"
        vals.push(p.saturating_mul(10) / 9);
        match p.checked_mul(10) {
            Some(q) if q <= max => p = q,
            _ => break,
        }
    }
    for (i, &a) in pows.iter().enumerate() {
        for &b in pows.iter().take(i) {
            vals.push(a + b);
            if let Some(v) = a.checked_mul(3) {
                vals.push(v + b);
            }
        }
    }
    vals.retain(|&v| v <= max);
    vals.sort();
    vals.dedup();
    let mut out = vec![];
    for v in vals {
        if signed {
            out.push(Item::I(v as i128, t_idx));
            out.push(Item::I(-(v as i128), t_idx));
            if v == max {
                out.push(Item::I(-(v as i128) - 1, t_idx)); // MIN
            }
        } else {
            out.push(Item::U(v, t_idx));
        }
    }
    out
}

pub fn record(seed: u64, tier: &str, out: &str) {
    let thorough = tier == "thorough";
    let mut rng = Rng::new(seed ^ 0xC09);
    let mut t = TraceWriter::create(out);
    let buf = Writer::VERIF_BUF_SIZE;
    // beyond the listed property: the integer trait constants the writer relies on
    {
        use rlib_num_traits::{FixedSizeInteger, Integer, MinMax, ZeroOne};
        let bj = |v: i128| { let (neg, mag) = signed_limbs(v); json!({"neg": neg, "mag": mag}) };
        let bu = |v: u128| json!({"neg": false, "mag": limbs(v)});
        macro_rules! nt_signed {
            ($t:ty, $name:expr) => {
                t.ev(json!({"ev": "numtraits", "ty": $name, "bits": <$t>::BITS, "signed": true, "base10len": <$t as FixedSizeInteger>::BASE_10_LEN,
                            "zero": bj(<$t as ZeroOne>::ZERO as i128), "one": bj(<$t as ZeroOne>::ONE as i128),
                            "min": bj(<$t as MinMax>::MIN as i128), "max": bj(<$t as MinMax>::MAX as i128),
                            "abs_min_plus_one": bj(Integer::abs(&(<$t>::MIN + 1)) as i128)}));
            };
        }
        macro_rules! nt_unsigned {
            ($t:ty, $name:expr) => {
                t.ev(json!({"ev": "numtraits", "ty": $name, "bits": <$t>::BITS, "signed": false, "base10len": <$t as FixedSizeInteger>::BASE_10_LEN,
                            "zero": bu(<$t as ZeroOne>::ZERO as u128), "one": bu(<$t as ZeroOne>::ONE as u128),
                            "min": bu(<$t as MinMax>::MIN as u128), "max": bu(<$t as MinMax>::MAX as u128),
                            "abs_min_plus_one": bu(Integer::abs(&(<$t>::MIN + 1)) as u128)}));
            };
        }
        nt_signed!(i8, "i8"); nt_signed!(i16, "i16"); nt_signed!(i32, "i32"); nt_signed!(i64, "i64"); nt_signed!(i128, "i128"); nt_signed!(isize, "isize");
        nt_unsigned!(u8, "u8"); nt_unsigned!(u16, "u16"); nt_unsigned!(u32, "u32"); nt_unsigned!(u64, "u64"); nt_unsigned!(u128, "u128"); nt_unsigned!(usize, "usize");
    }
    // systematic decimal boundary sweep of all 12 integer types (round trip through the Reader included), in runs of
    // 400 values so that the trace specification's per-run state stays small
    {
        let mut items: Vec<Item> = vec![];
        for ti in 0..6u8 {
            items.extend(decimal_sweep(true, ti));
            items.extend(decimal_sweep(false, ti));
        }
        if !thorough {
            // quick: every third pattern of the narrow types, all of the 64/128-bit ones
            items = items.into_iter().enumerate().filter(|(i, it)| i % 3 == 0 || matches!(it, Item::I(_, 3..=4) | Item::U(_, 3..=4))).map(|x| x.1).collect();
        }
        for (ci, chunk) in items.chunks(400).enumerate() {
            let data = Rc::new(RefCell::new(Vec::new()));
            let mode = [SinkMode::Half, SinkMode::All, SinkMode::Random][ci % 3];
            let mut w = Writer::new(Box::new(Sink::new(data.clone(), mode, seed + ci as u64)));
            t.ev(json!({"ev": "reset", "sink_mode": format!("{:?}", mode), "roundtrip": true, "sweep": true, "debug_build": cfg!(debug_assertions)}));
            let mut ok = true;
            for it in chunk {
                let js = item_json(it);
                match catch(|| { write_item(&mut w, it); w.write_char(' '); }) {
                    Ok(()) => {
                        t.ev(json!({"ev": "w", "item": js}));
                        t.ev(json!({"ev": "w", "item": {"k": "c", "v": 32}}));
                    }
                    Err(m) => {
                        t.ev(json!({"ev": "w", "item": js, "panic": m}));
                        ok = false;
                        break;
                    }
                }
            }
            let r = catch(|| { w.flush(); std::mem::forget(w); });
            {
                let d = data.borrow();
                let mut ev = json!({"ev": "flush", "sink": d.to_vec()});
                if let Err(m) = r { ev["panic"] = json!(m); }
                t.ev(ev);
            }
            if ok {
                let text = data.borrow().clone();
                let sched: Vec<i64> = (0..text.len() / 5 + 2).map(|i| 1 + (i % 9) as i64).collect();
                let mut rd = Reader::new(Box::new(Scripted::new(text, sched, Rc::new(Cell::new(0)), Rc::new(Cell::new(0)))));
                match catch(|| chunk.iter().map(|it| read_back(&mut rd, it)).collect::<Vec<_>>()) {
                    Ok(b) => t.ev(json!({"ev": "rt", "back": b})),
                    Err(m) => t.ev(json!({"ev": "rt", "back": [], "panic": m})),
                }
            }
        }
    }
    let runs = if thorough { 100 } else { 40 };
    let mut items_written = 0u64;
    let mut boundary_starts = 0u64; // writes that started within 45 bytes of the buffer boundary
    let mut rt_runs = 0u64;
    for run in 0..runs {
        let roundtrip = run % 4 == 3;
        if roundtrip {
            rt_runs += 1;
        }
        let mode = [SinkMode::All, SinkMode::Random, SinkMode::OneByte, SinkMode::Half][(run / 2) % 4];
        // OneByte sinks are slow with 64 KiB pieces: keep those runs small
        let data = Rc::new(RefCell::new(Vec::new()));
        let mut w = Writer::new(Box::new(Sink::new(data.clone(), mode, seed.wrapping_add(run as u64))));
        t.ev(json!({"ev": "reset", "sink_mode": format!("{:?}", mode), "roundtrip": roundtrip, "debug_build": cfg!(debug_assertions)}));
        let mut all_items: Vec<Item> = vec![];
        let mut reported = 0usize;
        let mut fill = 0usize; // what the buffer fill level would be in the optimised profile (for targeting only)
        let n_ops = if thorough { 200 } else { 120 };
        let mut emit = |t: &mut TraceWriter, w: &mut Writer, it: Item, fill: &mut usize| -> bool {
            let js = item_json(&it);
            let len = rendered_len(&it);
            if buf - (*fill % buf) <= 45 || *fill % buf + len > buf {
                boundary_starts += 1;
            }
            *fill = (*fill + len) % buf.max(1);
            let r = catch(|| write_item(w, &it));
            items_written += 1;
            match r {
                Ok(()) => {
                    t.ev(json!({"ev": "w", "item": js}));
                    true
                }
                Err(msg) => {
                    t.ev(json!({"ev": "w", "item": js, "panic": msg}));
                    false
                }
            }
        };
        let mut ok = true;
        for op in 0..n_ops {
            if !ok {
                break;
            }
            // bring the fill level close to the boundary with one big filler, then sweep with small pieces
            if !roundtrip && op % 40 == 0 && mode != SinkMode::OneByte {
                let target = buf - rng.usize(46);
                let cur = fill % buf;
                let need = if target > cur { target - cur } else { buf - cur + target };
                let filler: String = (0..need).map(|i| (b'a' + (i % 26) as u8) as char).collect();
                let it = Item::S(filler);
                all_items.push(it.clone());
                ok = emit(&mut t, &mut w, it, &mut fill);
                continue;
            }
            if !roundtrip && rng.chance(1, 60) && mode != SinkMode::OneByte {
                // strings longer than the buffer (chunked by BUF_SIZE)
                let len = buf + rng.usize(buf + 2);
                let it = Item::S((0..len).map(|i| (b'A' + (i % 26) as u8) as char).collect());
                all_items.push(it.clone());
                ok = emit(&mut t, &mut w, it, &mut fill);
                continue;
            }
            let it = rand_item(&mut rng, roundtrip);
            all_items.push(it.clone());
            ok = emit(&mut t, &mut w, it, &mut fill);
            if roundtrip && ok {
                let sep = Item::C(*rng.pick(&[' ', '\n', ' ', '\t']));
                ok = emit(&mut t, &mut w, sep, &mut fill);
            } else if ok && rng.chance(1, 12) {
                let c = Item::C((33 + rng.below(94) as u8) as char);
                ok = emit(&mut t, &mut w, c, &mut fill);
            }
            if ok && rng.chance(1, 25) {
                let r = catch(|| w.flush());
                let d = data.borrow();
                t.ev(json!({"ev": "flush", "sink": d[reported..].to_vec(), "panic_flush": r.is_err()}));
                reported = d.len();
                fill = 0;
            }
        }
        // end of run: flush or drop
        let ending = if run % 2 == 0 { "flush" } else { "drop" };
        let r = catch(|| {
            if ending == "flush" {
                w.flush();
                std::mem::forget(w);
            } else {
                drop(w);
            }
        });
        {
            let d = data.borrow();
            let mut ev = json!({"ev": ending, "sink": d[reported..].to_vec()});
            if let Err(m) = r {
                ev["panic"] = json!(m);
            }
            t.ev(ev);
        }
        if roundtrip && ok {
            let text = data.borrow().clone();
            let mut vals = vec![];
            for it in &all_items {
                flat_values(it, &mut vals);
            }
            let sched: Vec<i64> = (0..text.len() / 7 + 2).map(|_| 1 + rng.below(13) as i64).collect();
            let mut rd = Reader::new(Box::new(Scripted::new(text, sched, Rc::new(Cell::new(0)), Rc::new(Cell::new(0)))));
            let back = catch(|| vals.iter().map(|it| read_back(&mut rd, it)).collect::<Vec<_>>());
            match back {
                Ok(b) => t.ev(json!({"ev": "rt", "back": b})),
                Err(m) => t.ev(json!({"ev": "rt", "back": [], "panic": m})),
            }
        }
    }
    let ev = t.finish();
    println!("{}", json!({"events": ev, "runs": runs, "items_written": items_written, "writes_starting_near_boundary": boundary_starts,
                          "roundtrip_runs": rt_runs, "buf_size": buf, "debug_build": cfg!(debug_assertions)}));
}

fn rendered_len(it: &Item) -> usize {
    match it {
        Item::S(s) => s.len(),
        Item::C(_) => 1,
        Item::I(v, _) => v.to_string().len(),
        Item::U(v, _) => v.to_string().len(),
        Item::VecI64(xs) => xs.iter().map(|x| x.to_string().len() + 1).sum::<usize>().saturating_sub(1),
        Item::VecU32(xs) => xs.iter().map(|x| x.to_string().len() + 1).sum::<usize>().saturating_sub(1),
        Item::VecStr(xs) => xs.iter().map(|x| x.len() + 1).sum::<usize>().saturating_sub(1),
        Item::Tup(xs) => xs.iter().map(|x| rendered_len(x) + 1).sum::<usize>().saturating_sub(1),
    }
}
