#![allow(dead_code)]
//! drv <component> replay <cases.ndjson> --out verdict.json
//! drv <component> record --seed S --tier quick|thorough --out trace.ndjson
mod util;
mod dsu;
mod reader;
mod writer;
mod segtree;
mod treap;
mod bitset;
mod mint;
mod gcd;
mod rational;
mod sieve;
mod iter;
mod tensor;
mod rand;
mod geometry;
mod f80;
mod fft;
mod show;

use util::arg_value;

fn main() {
    let args: Vec<String> = std::env::args().collect();
    if args.len() < 3 {
        eprintln!("usage: drv <component> replay|record ...");
        std::process::exit(2);
    }
    util::quiet_panics();
    let comp = args[1].as_str();
    let mode = args[2].as_str();
    let out = arg_value(&args, "--out").unwrap_or_else(|| "out.json".into());
    let seed: u64 = arg_value(&args, "--seed").and_then(|s| s.parse().ok()).unwrap_or(1);
    let tier = arg_value(&args, "--tier").unwrap_or_else(|| "quick".into());
    match (comp, mode) {
        ("dsu", "replay") => dsu::replay(&args[3], &out),
        ("dsu", "record") => dsu::record(seed, &tier, &out),
        ("reader", "replay") => reader::replay(&args[3], &out),
        ("reader", "record") => reader::record(seed, &tier, &out),
        ("segtree", "replay") => segtree::replay(&args[3], &out, &arg_value(&args, "--focus").unwrap_or_else(|| "all".into())),
        ("segtree", "record") => segtree::record(seed, &tier, &out),
        ("treap", "replay") => treap::replay(&args[3], &out),
        ("treap", "record") => treap::record(seed, &tier, &out),
        ("treap", "record-solo") => treap::record_solo(arg_value(&args, "--n").unwrap().parse().unwrap(),
                                                       arg_value(&args, "--streams").map(|s| s.parse().unwrap()).unwrap_or(1),
                                                       arg_value(&args, "--per").map(|s| s.parse().unwrap()).unwrap_or(0), &out),
        ("treap", "record-race") => treap::record_race(seed, arg_value(&args, "--threads").unwrap().parse().unwrap(),
                                                       arg_value(&args, "--draws").unwrap().parse().unwrap(), &out),
        ("treap", "record-starts") => treap::record_starts(arg_value(&args, "--rounds").unwrap().parse().unwrap(),
                                                           arg_value(&args, "--threads").unwrap().parse().unwrap(),
                                                           arg_value(&args, "--per").unwrap().parse().unwrap(), &out),
        ("treap", "record-solo-streams") => treap::record_solo_streams(arg_value(&args, "--streams").unwrap().parse().unwrap(),
                                                                       arg_value(&args, "--per").unwrap().parse().unwrap(), &out),
        ("treap", "probe") => treap::probe(args[3].parse().unwrap(), args[4].parse().unwrap()),
        ("treap", "record-shape") => treap::record_shape(seed, &tier, &out),
        ("bitset", "replay") => bitset::replay(&args[3], &out),
        ("bitset", "record") => bitset::record(seed, &tier, &out),
        ("gcd", "record") => gcd::record(seed, &tier, &out),
        ("rational", "record") => rational::record(seed, &tier, &out),
        ("sieve", "record") => sieve::record(seed, &tier, &out),
        ("iter", "replay") => iter::replay(&args[3], &out),
        ("iter", "record") => iter::record(seed, &tier, &out),
        ("tensor", "replay") => tensor::replay(&args[3], &out),
        ("tensor", "record") => tensor::record(seed, &tier, &out),
        ("rand", "record") => rand::record(seed, &tier, &out),
        ("geometry", "record") => geometry::record(seed, &tier, &out),
        ("f80", "record") => f80::record(seed, &tier, &out),
        ("fft", "replay") => fft::replay(&args[3], &out),
        ("fft", "record") => fft::record(seed, &tier, &out),
        ("fft", "record-complex") => fft::record_complex(&tier, &out),
        ("mint", "record") => mint::record(seed, &tier, &out),
        ("writer", "replay") => writer::replay(&args[3], &out),
        ("show", "record") => show::record(seed, &tier, &out),
        ("writer", "record") => writer::record(seed, &tier, &out),
        _ => {
            eprintln!("unknown component/mode {} {}", comp, mode);
            std::process::exit(2);
        }
    }
}
