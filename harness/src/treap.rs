//! C03/C16/C17 — rlib_treap.  replay: TLC-emitted (A)+(B) states of TreapGen with spec-chosen priorities imposed
//! through the public node fields; record: operation traces (crate's own priorities), shape traces (C16),
//! multi-threaded construction traces (C17).
use crate::util::*;
use rlib_treap::{Treap, TreapItem, TreapItemSized, TreapNode};
use serde_json::{json, Value};

const Q: i64 = 5;
const X: i64 = 2;

fn xpow(k: i64) -> i64 {
    // X = 2 has multiplicative order 4 modulo Q = 5
    let mut r = 1;
    for _ in 0..k % 4 {
        r = r * X % Q;
    }
    r
}
fn g(len: i64) -> i64 {
    // 1 + X + ... + X^(len-1) = X^len - 1 (mod 5): period 4 as well
    let mut r = 0;
    for _ in 0..len % 4 {
        r = (r * X + 1) % Q;
    }
    r
}

/// Lawful user item: element c in Z_Q, aggregate = order-sensitive hash + size, lazy affine modification.
#[derive(Clone, Debug)]
pub struct TItem {
    pub c: i64,
    pub h: i64,
    pub len: i64,
    pa: i64,
    pb: i64,
}

impl TItem {
    pub fn new(c: i64) -> Self {
        TItem { c: c.rem_euclid(Q), h: c.rem_euclid(Q), len: 1, pa: 1, pb: 0 }
    }
    /// lazily modify the whole subtree below this item
    pub fn apply(&mut self, m: (i64, i64)) {
        self.c = (m.0 * self.c + m.1).rem_euclid(Q);
        self.h = (m.0 * self.h + m.1 * g(self.len)).rem_euclid(Q);
        let (a, b) = ((m.0 * self.pa).rem_euclid(Q), (m.0 * self.pb + m.1).rem_euclid(Q));
        self.pa = a;
        self.pb = b;
    }
}

impl TreapItem for TItem {
    fn update(&mut self, left: Option<&Self>, right: Option<&Self>) {
        let (lh, ll) = left.map(|x| (x.h, x.len)).unwrap_or((0, 0));
        let (rh, rl) = right.map(|x| (x.h, x.len)).unwrap_or((0, 0));
        self.len = ll + 1 + rl;
        self.h = (((lh * X + self.c) % Q) * xpow(rl) + rh) % Q;
    }
    fn push(&mut self, left: Option<&mut Self>, right: Option<&mut Self>) {
        let m = (self.pa, self.pb);
        if let Some(l) = left {
            l.apply(m);
        }
        if let Some(r) = right {
            r.apply(m);
        }
        self.pa = 1;
        self.pb = 0;
    }
}

impl TreapItemSized for TItem {
    fn size(&self) -> usize {
        self.len as usize
    }
}

fn node(c: i64, prio: u32) -> Treap<TItem> {
    Treap { root: Some(Box::new(TreapNode { item: TItem::new(c), priority: prio, left: None, right: None })) }
}

/// a singleton item with value c that still carries a pending modification (the state root_mut().apply() leaves a
/// one-element treap in): lawful, and the pending part concerns no other element
fn pending_item(c: i64) -> TItem {
    // c = 2 * c0 + 1 (mod Q)
    let inv2 = (Q + 1) / 2;
    let c0 = ((c - 1).rem_euclid(Q) * inv2).rem_euclid(Q);
    let mut it = TItem::new(c0);
    it.apply((2, 1));
    debug_assert_eq!(it.c, c.rem_euclid(Q));
    it
}

fn node_pending(c: i64, prio: u32) -> Treap<TItem> {
    Treap { root: Some(Box::new(TreapNode { item: pending_item(c), priority: prio, left: None, right: None })) }
}

fn take(slots: &mut Vec<Treap<TItem>>, s: usize) -> Treap<TItem> {
    std::mem::replace(&mut slots[s], Treap::new())
}

pub fn replay(cases_path: &str, out: &str) {
    let mut v = Verdict::new();
    let mut nontrivial = 0u64;
    for_each_case(cases_path, |case| {
        v.cases += 1;
        if v.cases % 4999 == 1 {
            v.sample(case.clone());
        }
        let hist = arr(&case, "hist");
        if hist.iter().any(|o| gets(o, "op") == "root_modify") && hist.len() >= 3 {
            nontrivial += 1;
        }
        let mut slots: Vec<Treap<TItem>> = (0..9).map(|_| Treap::new()).collect();
        // every second case inserts items that still carry a pending modification of their own
        let pending_variant = v.cases % 2 == 0;
        for (k, op) in hist.iter().enumerate() {
            let a = getu(op, "a");
            let b = getu(op, "b");
            let name = gets(op, "op");
            let want_r = op["r"].as_i64().unwrap_or(0);
            v.checks += 1;
            let res = catch(|| -> Option<i64> {
                match name {
                    "from_item" => {
                        slots[a] = node(geti(op, "x"), geti(op, "y") as u32);
                        None
                    }
                    "merge" => {
                        let (l, r) = (take(&mut slots, a), take(&mut slots, b));
                        slots[a] = Treap::merge(l, r);
                        None
                    }
                    "split_at" => {
                        let (l, r) = take(&mut slots, a).split_at(getu(op, "x"));
                        slots[a] = l;
                        slots[b] = r;
                        None
                    }
                    "split_by" => {
                        let k = geti(op, "x");
                        let (l, r) = take(&mut slots, a).split_by(|it| it.c <= k);
                        slots[a] = l;
                        slots[b] = r;
                        None
                    }
                    "insert_at" => {
                        // the crate's insert_at composition, with the priority the specification chose
                        let (l, r) = take(&mut slots, a).split_at(getu(op, "x"));
                        let (c, pr) = (op["y"][0].as_i64().unwrap(), op["y"][1].as_i64().unwrap() as u32);
                        let nd = if pending_variant { node_pending(c, pr) } else { node(c, pr) };
                        slots[a] = Treap::merge(Treap::merge(l, nd), r);
                        None
                    }
                    "remove_at" => {
                        let it = slots[a].remove_at(getu(op, "x"));
                        // the item handed back is a clean singleton (its own aggregate, nothing pending)
                        if it.h != it.c || it.len != 1 || it.pa != 1 || it.pb != 0 { Some(-1000 - it.len) } else { Some(it.c) }
                    }
                    "move" => {
                        // remove_at, then the returned item object itself goes into a new node with the chosen priority
                        let it = slots[a].remove_at(getu(op, "x"));
                        let (to, prio) = (op["y"][0].as_u64().unwrap() as usize, op["y"][1].as_u64().unwrap() as u32);
                        let (l, r) = take(&mut slots, a).split_at(to);
                        let nd = Treap { root: Some(Box::new(TreapNode { item: it, priority: prio, left: None, right: None })) };
                        slots[a] = Treap::merge(Treap::merge(l, nd), r);
                        None
                    }
                    "root_modify" => {
                        let m = (op["x"][0].as_i64().unwrap(), op["x"][1].as_i64().unwrap());
                        slots[a].root_mut().unwrap().apply(m);
                        None
                    }
                    "first" => Some(slots[a].first().unwrap().c),
                    "last" => Some(slots[a].last().unwrap().c),
                    "collect" => {
                        slots[a].collect();
                        None
                    }
                    o => panic!("harness: unknown op {}", o),
                }
            });
            match res {
                Err(m) => {
                    v.mismatch(&format!("treap.{}: panic", name), json!({"case": case, "step": k, "panic": m}));
                    return;
                }
                Ok(Some(got)) if got != want_r => {
                    v.mismatch(&format!("treap.{}: wrong element", name), json!({"case": case, "step": k, "got": got, "want": want_r}));
                }
                _ => {}
            }
        }
        for sl in arr(&case, "slots") {
            let s = getu(sl, "s");
            let want_seq: Vec<i64> = arr(sl, "seq").iter().map(|x| x.as_i64().unwrap()).collect();
            let want_agg = (sl["agg"][0].as_i64().unwrap(), sl["agg"][1].as_i64().unwrap());
            let t = &mut slots[s];
            let r = catch(|| {
                let mut bad: Vec<(String, Value, Value)> = vec![];
                let agg = t.root().map(|i| (i.h, i.len)).unwrap_or((0, 0));
                if agg != want_agg {
                    bad.push(("root aggregate".into(), json!([agg.0, agg.1]), json!([want_agg.0, want_agg.1])));
                }
                if t.size() != want_seq.len() {
                    bad.push(("size".into(), json!(t.size()), json!(want_seq.len())));
                }
                if t.is_empty() != want_seq.is_empty() {
                    bad.push(("is_empty".into(), json!(t.is_empty()), json!(want_seq.is_empty())));
                }
                let f = t.first().map(|i| i.c);
                if f != want_seq.first().copied() {
                    bad.push(("first".into(), json!(f), json!(want_seq.first())));
                }
                let la = t.last().map(|i| i.c);
                if la != want_seq.last().copied() {
                    bad.push(("last".into(), json!(la), json!(want_seq.last())));
                }
                let col: Vec<i64> = t.collect().iter().map(|i| i.c).collect();
                if col != want_seq {
                    bad.push(("collect".into(), json!(col), json!(want_seq)));
                }
                bad
            });
            v.checks += 6;
            match r {
                Err(m) => v.mismatch("treap: panic in a query", json!({"case": case, "slot": s, "panic": m})),
                Ok(bad) => {
                    for (what, got, want) in bad {
                        v.mismatch(&format!("treap.{}: differs from the sequence", what), json!({"case": case, "slot": s, "got": got, "want": want}));
                    }
                }
            }
        }
    });
    v.extra.insert("nontrivial_cases".into(), json!(nontrivial));
    v.write(out);
}

// ------------------------------------------------------------------------------------------- record (C03)

struct Live {
    slots: Vec<Treap<TItem>>,
    t: TraceWriter,
}

impl Live {
    fn size(&self, s: usize) -> usize {
        self.slots[s].size()
    }
    fn empty_slot(&self) -> Option<usize> {
        (0..8).find(|&s| self.slots[s].is_empty())
    }
}

pub fn record(seed: u64, tier: &str, out: &str) {
    let thorough = tier == "thorough";
    let mut rng = Rng::new(seed ^ 0xC03);
    let mut lv = Live { slots: (0..8).map(|_| Treap::new()).collect(), t: TraceWriter::create(out) };
    let runs = if thorough { 24 } else { 6 };
    let ops = if thorough { 20_000 } else { 3_500 };
    for run in 0..runs {
        lv.slots = (0..8).map(|_| Treap::new()).collect();
        lv.t.ev(json!({"ev": "reset"}));
        let cap = [30usize, 300, 2000][run % 3];
        for _ in 0..ops {
            let s = rng.usize(8);
            let n = lv.size(s);
            let total: usize = (0..8).map(|i| lv.size(i)).sum();
            let roll = rng.below(100);
            let r = catch(|| {
                if n == 0 {
                    let c = rng.below(5) as i64;
                    lv.slots[s] = Treap::from_item(TItem::new(c));
                    lv.t.ev(json!({"ev": "from_item", "s": s, "c": c}));
                    return;
                }
                match roll {
                    0..=24 if total < cap => {
                        let (pos, c) = (rng.usize(n + 1), rng.below(5) as i64);
                        // every third inserted item still carries a pending modification of its own
                        lv.slots[s].insert_at(pos, if rng.chance(1, 3) { pending_item(c) } else { TItem::new(c) });
                        lv.t.ev(json!({"ev": "insert_at", "a": s, "pos": pos, "c": c}));
                    }
                    0..=34 => {
                        let pos = rng.usize(n);
                        let it = lv.slots[s].remove_at(pos);
                        let got = it.c;
                        lv.t.ev(json!({"ev": "remove_at", "a": s, "pos": pos, "res": got}));
                        if rng.chance(1, 3) {
                            // move: the returned item itself is inserted again
                            let to = rng.usize(n);
                            lv.slots[s].insert_at(to, it);
                            lv.t.ev(json!({"ev": "insert_at", "a": s, "pos": to, "c": got}));
                        }
                    }
                    35..=54 => {
                        // range modify / range aggregate: split out [l, r], act on its root, merge back
                        let (a, b) = (rng.usize(n), rng.usize(n));
                        let (l, r) = (a.min(b), a.max(b));
                        let free: Vec<usize> = (0..8).filter(|&x| x != s && lv.slots[x].is_empty()).collect();
                        if free.len() < 2 {
                            let m = (rng.below(2) as i64, 1 + rng.below(3) as i64);
                            lv.slots[s].root_mut().unwrap().apply(m);
                            lv.t.ev(json!({"ev": "root_modify", "a": s, "m": [m.0, m.1]}));
                            return;
                        }
                        let (mid, right) = (free[0], free[1]);
                        let (x, y) = take(&mut lv.slots, s).split_at(r + 1);
                        lv.slots[s] = x;
                        lv.slots[right] = y;
                        lv.t.ev(json!({"ev": "split_at", "a": s, "b": right, "pos": r + 1}));
                        let (x, y) = take(&mut lv.slots, s).split_at(l);
                        lv.slots[s] = x;
                        lv.slots[mid] = y;
                        lv.t.ev(json!({"ev": "split_at", "a": s, "b": mid, "pos": l}));
                        if rng.chance(1, 2) {
                            let m = match rng.below(3) { 0 => (0, rng.below(5) as i64), 1 => (1, 1 + rng.below(4) as i64), _ => (2, 0) };
                            lv.slots[mid].root_mut().unwrap().apply(m);
                            lv.t.ev(json!({"ev": "root_modify", "a": mid, "m": [m.0, m.1]}));
                        }
                        let agg = lv.slots[mid].root().map(|i| (i.h, i.len)).unwrap();
                        lv.t.ev(json!({"ev": "agg", "a": mid, "res": [agg.0, agg.1]}));
                        let (x, y) = (take(&mut lv.slots, s), take(&mut lv.slots, mid));
                        lv.slots[s] = Treap::merge(x, y);
                        lv.t.ev(json!({"ev": "merge", "a": s, "b": mid}));
                        let (x, y) = (take(&mut lv.slots, s), take(&mut lv.slots, right));
                        lv.slots[s] = Treap::merge(x, y);
                        lv.t.ev(json!({"ev": "merge", "a": s, "b": right}));
                    }
                    55..=62 => {
                        if let Some(b) = lv.empty_slot() {
                            let pos = rng.usize(n + 1);
                            let (x, y) = take(&mut lv.slots, s).split_at(pos);
                            lv.slots[s] = x;
                            lv.slots[b] = y;
                            lv.t.ev(json!({"ev": "split_at", "a": s, "b": b, "pos": pos}));
                        }
                    }
                    63..=70 => {
                        let b = rng.usize(8);
                        if b != s {
                            let (x, y) = (take(&mut lv.slots, s), take(&mut lv.slots, b));
                            lv.slots[s] = Treap::merge(x, y);
                            lv.t.ev(json!({"ev": "merge", "a": s, "b": b}));
                        }
                    }
                    71..=76 => {
                        let m = match rng.below(3) { 0 => (0, rng.below(5) as i64), 1 => (1, 1 + rng.below(4) as i64), _ => (2, 0) };
                        lv.slots[s].root_mut().unwrap().apply(m);
                        lv.t.ev(json!({"ev": "root_modify", "a": s, "m": [m.0, m.1]}));
                    }
                    77..=80 => {
                        let got = lv.slots[s].first().unwrap().c;
                        lv.t.ev(json!({"ev": "first", "a": s, "res": got}));
                    }
                    81..=84 => {
                        let got = lv.slots[s].last().unwrap().c;
                        lv.t.ev(json!({"ev": "last", "a": s, "res": got}));
                    }
                    85..=88 => {
                        let got = lv.slots[s].size();
                        lv.t.ev(json!({"ev": "size", "a": s, "res": got}));
                    }
                    89..=92 => {
                        let agg = lv.slots[s].root().map(|i| (i.h, i.len)).unwrap();
                        lv.t.ev(json!({"ev": "agg", "a": s, "res": [agg.0, agg.1]}));
                    }
                    93..=94 => {
                        // split by a predicate on elements only makes sense on sorted content: sort-free variant,
                        // threshold 4 (always true) / -1 (always false) are prefix-monotone on every sequence
                        if let Some(b) = lv.empty_slot() {
                            let k = if rng.chance(1, 2) { 4 } else { -1 };
                            let (x, y) = take(&mut lv.slots, s).split_by(|it| it.c <= k);
                            lv.slots[s] = x;
                            lv.slots[b] = y;
                            lv.t.ev(json!({"ev": "split_by", "a": s, "b": b, "k": k}));
                        }
                    }
                    _ => {
                        if n <= 400 || rng.chance(1, 10) {
                            let got: Vec<i64> = lv.slots[s].collect().iter().map(|i| i.c).collect();
                            lv.t.ev(json!({"ev": "collect", "a": s, "res": got}));
                        }
                    }
                }
            });
            if let Err(m) = r {
                lv.t.ev(json!({"ev": "size", "a": s, "res": -1, "panic": m}));
                break;
            }
        }
        // sorted content + split_by thresholds: build an ascending run 0,0,1,2,2,3,4 in a free slot
        for s in 0..8 {
            lv.slots[s] = Treap::new();
        }
        lv.t.ev(json!({"ev": "reset"}));
        let mut cs: Vec<i64> = (0..20 + rng.usize(60)).map(|_| rng.below(5) as i64).collect();
        cs.sort();
        for (i, &c) in cs.iter().enumerate() {
            if i == 0 {
                lv.slots[0] = Treap::from_item(TItem::new(c));
                lv.t.ev(json!({"ev": "from_item", "s": 0, "c": c}));
            } else {
                lv.slots[0].insert_at(i, TItem::new(c));
                lv.t.ev(json!({"ev": "insert_at", "a": 0, "pos": i, "c": c}));
            }
        }
        for k in [2i64, 0, 3] {
            let (x, y) = take(&mut lv.slots, 0).split_by(|it| it.c <= k);
            lv.slots[0] = x;
            lv.slots[1] = y;
            lv.t.ev(json!({"ev": "split_by", "a": 0, "b": 1, "k": k}));
            for s in 0..2 {
                let got: Vec<i64> = lv.slots[s].collect().iter().map(|i| i.c).collect();
                lv.t.ev(json!({"ev": "collect", "a": s, "res": got}));
            }
            let (x, y) = (take(&mut lv.slots, 0), take(&mut lv.slots, 1));
            lv.slots[0] = Treap::merge(x, y);
            lv.t.ev(json!({"ev": "merge", "a": 0, "b": 1}));
        }
    }
    let ev = lv.t.finish();
    println!("{}", json!({"events": ev, "runs": runs * 2}));
}

// ------------------------------------------------------------------------------------------- record (C16)

/// (height in edges, edges violating min-heap order, edges violating max-heap order, nodes), iteratively
fn walk<T>(root: &Option<Box<TreapNode<T>>>) -> (usize, u64, u64, usize) {
    let mut stack: Vec<(&TreapNode<T>, usize)> = vec![];
    if let Some(r) = root {
        stack.push((r, 0));
    }
    let (mut h, mut bad_min, mut bad_max, mut n) = (0usize, 0u64, 0u64, 0usize);
    while let Some((nd, d)) = stack.pop() {
        n += 1;
        h = h.max(d);
        for ch in [&nd.left, &nd.right] {
            if let Some(c) = ch {
                if nd.priority > c.priority {
                    bad_min += 1;
                }
                if nd.priority < c.priority {
                    bad_max += 1;
                }
                stack.push((c, d + 1));
            }
        }
    }
    (h, bad_min, bad_max, n)
}

fn preorder<T: TreapItemSized>(root: &Option<Box<TreapNode<T>>>) -> Vec<Value> {
    fn cnt<T>(n: &Option<Box<TreapNode<T>>>) -> usize {
        match n {
            None => 0,
            Some(b) => 1 + cnt(&b.left) + cnt(&b.right),
        }
    }
    let mut out = vec![];
    let mut stack: Vec<&TreapNode<T>> = vec![];
    if let Some(r) = root {
        stack.push(r);
    }
    while let Some(nd) = stack.pop() {
        // sizes are counted by walking, not read from the item
        // TLC integers are 32-bit signed: drop the lowest bit (a <= b implies a>>1 <= b>>1, so the
        // non-strict heap order along an edge is preserved)
        out.push(json!([nd.priority >> 1, cnt(&nd.left), cnt(&nd.right)]));
        if let Some(r) = &nd.right {
            stack.push(r);
        }
        if let Some(l) = &nd.left {
            stack.push(l);
        }
    }
    out
}

fn ckpt(t: &mut TraceWriter, tr: &Treap<TItem>, what: &str) {
    let (h, bmin, bmax, n) = walk(&tr.root);
    t.ev(json!({"ev": "ckpt", "n": n, "height": h, "bad_min": bmin, "bad_max": bmax, "history": what}));
}

pub fn record_shape(seed: u64, tier: &str, out: &str) {
    let thorough = tier == "thorough";
    let mut rng = Rng::new(seed ^ 0xC16);
    let mut t = TraceWriter::create(out);
    t.ev(json!({"ev": "reset"}));
    let mut checkpoints = 0u64;
    // (i) small trees: whole structure to the specification
    for round in 0..(if thorough { 400 } else { 80 }) {
        let mut tr: Treap<TItem> = Treap::new();
        let n = 1 + rng.usize(63);
        for i in 0..n {
            let pos = match round % 4 { 0 => i, 1 => 0, 2 => rng.usize(i + 1), _ => if i % 2 == 0 { 0 } else { i } };
            tr.insert_at(pos, TItem::new(rng.below(5) as i64));
        }
        for _ in 0..rng.usize(20) {
            let sz = tr.size();
            if sz > 1 {
                let k = 1 + rng.usize(sz - 1);
                let (a, b) = tr.split_at(k);
                tr = if rng.chance(1, 2) { Treap::merge(b, a) } else { Treap::merge(a, b) };
            }
            if tr.size() > 2 && rng.chance(1, 3) {
                let p = rng.usize(tr.size());
                tr.remove_at(p);
            }
        }
        t.ev(json!({"ev": "shape", "pre": preorder(&tr.root)}));
        checkpoints += 1;
    }
    // (ii) adversarial large histories, checkpoints by walking the public fields
    let sizes: &[usize] = if thorough { &[10_000, 100_000, 1_000_000] } else { &[10_000, 100_000] };
    for &n in sizes {
        for hist in ["sorted appends", "front insertion", "alternating ends", "split-and-swap rotations", "churn", "random positions"] {
            let mut tr: Treap<TItem> = Treap::new();
            let marks = [n / 10, n / 3, n - 1];
            for i in 0..n {
                match hist {
                    "sorted appends" => tr.insert_at(i, TItem::new(1)),
                    "front insertion" => tr.insert_at(0, TItem::new(1)),
                    "alternating ends" => tr.insert_at(if i % 2 == 0 { 0 } else { i }, TItem::new(1)),
                    "random positions" => tr.insert_at(rng.usize(i + 1), TItem::new(1)),
                    "split-and-swap rotations" => {
                        tr.insert_at(i, TItem::new(1));
                        if i % 64 == 63 {
                            let k = 1 + rng.usize(i);
                            let (a, b) = tr.split_at(k);
                            tr = Treap::merge(b, a);
                        }
                    }
                    _ => {
                        // delete-min / insert-max churn around a window
                        tr.insert_at(tr.size(), TItem::new(1));
                        if i % 3 == 2 && tr.size() > 10 {
                            tr.remove_at(0);
                            tr.insert_at(tr.size(), TItem::new(2));
                        }
                    }
                }
                if marks.contains(&i) {
                    ckpt(&mut t, &tr, hist);
                    checkpoints += 1;
                }
                // far out of shape already: checkpoint it as it is and stop this history (O(n) per operation from here)
                if i >= 1023 && (i + 1).is_power_of_two() && walk(&tr.root).0 > 8 * (usize::BITS - (i + 1).leading_zeros()) as usize + 40 {
                    ckpt(&mut t, &tr, hist);
                    checkpoints += 1;
                    break;
                }
            }
            // dismantle from the front: heights must stay bounded while shrinking too
            if hist == "churn" {
                let half = tr.size() / 2;
                for _ in 0..half {
                    tr.remove_at(0);
                }
                ckpt(&mut t, &tr, "churn then remove half from the front");
                checkpoints += 1;
            }
            // iterative drop: Box<TreapNode> drops recursively along the height only, fine when balanced
        }
    }
    // (iii) several treaps filled round-robin from the one per-thread priority stream: a treap then receives every
    // k-th priority, which defeats generators whose k-decimated streams are ordered (additive / low-discrepancy
    // sequences at Fibonacci strides, counters, ...)
    let ks: Vec<usize> = {
        let mut v: Vec<usize> = vec![2, 3, 4, 5, 7, 8, 10, 13, 16, 21, 34, 55, 64, 89, 100, 144, 233, 256, 377, 610, 987, 1000, 1024, 1597, 2048];
        if thorough {
            v.extend_from_slice(&[2584, 4181, 6765, 10946, 4096, 5000, 16384]);
        }
        v
    };
    for &k in &ks {
        // power-of-two strides are where a power-of-two-modulus LCG is weakest: give those treaps more nodes
        let per = if k.is_power_of_two() && k >= 512 { if thorough { 3000 } else { 2500 }.min(6_000_000 / k) }
                  else { if thorough { 600 } else { 250 }.min(400_000 / k).max(60) };
        let mut ts: Vec<Treap<TItem>> = (0..k).map(|_| Treap::new()).collect();
        let mut degenerate = false;
        for round in 0..per {
            // a group that is already far out of shape is reported as it is (its checkpoints are judged below like
            // any other); carrying on would only take O(n) per operation
            if round >= 127 && (round + 1).is_power_of_two() {
                let lim = 8 * (usize::BITS - (round + 1).leading_zeros()) as usize + 40;
                if ts.iter().take(6).any(|tr| walk(&tr.root).0 > lim) {
                    degenerate = true;
                    break;
                }
            }
            for (i, tr) in ts.iter_mut().enumerate() {
                match (k + i) % 3 {
                    0 => tr.insert_at(round, TItem::new(1)),  // sorted append
                    1 => tr.insert_at(0, TItem::new(1)),      // front insertion
                    _ => {
                        // built by from_item + merge at the back
                        let old = std::mem::replace(tr, Treap::new());
                        *tr = Treap::merge(old, Treap::from_item(TItem::new(1)));
                    }
                }
            }
        }
        // the three worst treaps of the group by height
        let mut hs: Vec<(usize, usize)> = ts.iter().enumerate().map(|(i, tr)| (walk(&tr.root).0, i)).collect();
        hs.sort();
        for &(_, i) in hs.iter().rev().take(3) {
            ckpt(&mut t, &ts[i], &format!("{} treaps filled round-robin", k));
            checkpoints += 1;
        }
        if degenerate {
            break;
        }
    }
    // (iv) nodes created on many threads (treaps are Send), merged / inserted on one: every thread's priorities come
    // from that thread's generator, so generators that repeat each other across threads show up here
    for &(threads, per, one_by_one) in &[(64usize, 1usize, false), (600, 1, false), (2000, 1, false), (48, 40, false), (300, 7, false),
                                         (200, 300, false), (120, 120, false), (150, 1, true), (150, 20, true)] {
        let work = move || {
            let mut tr: Treap<TItem> = Treap::new();
            for i in 0..per {
                tr.insert_at(i, TItem::new(1));
            }
            tr
        };
        let parts: Vec<Treap<TItem>> = if one_by_one {
            // workers whose lifetimes do not overlap
            (0..threads).map(|_| std::thread::spawn(work).join().unwrap()).collect()
        } else {
            (0..threads).map(|_| std::thread::spawn(work)).collect::<Vec<_>>().into_iter().map(|h| h.join().unwrap()).collect()
        };
        let mut all: Treap<TItem> = Treap::new();
        for p in parts {
            all = Treap::merge(all, p);
        }
        ckpt(&mut t, &all, &format!("{} threads{} x {} nodes merged on one thread", threads, if one_by_one { " (one after the other)" } else { "" }, per));
        checkpoints += 1;
    }
    let ev = t.finish();
    println!("{}", json!({"events": ev, "runs": checkpoints, "max_n": sizes[sizes.len() - 1]}));
}

// ------------------------------------------------------------------------------------------- record (C17)

fn hi_lo(p: u32) -> Value {
    json!([p >> 16, p & 0xFFFF])
}

/// One thread's script: create `draws` nodes through the safe constructor, recording every priority, and keep
/// operating on a treap owned by this thread.  Returns (priorities, observables of the final treap).
fn race_script(seed: u64, draws: usize) -> (Vec<u32>, Vec<i64>) {
    let mut rng = Rng::new(seed);
    let mut prios = Vec::with_capacity(draws);
    let mut tr: Treap<TItem> = Treap::new();
    let mut printed: u64 = 0; // printouts that differ from the specified layout
    for i in 0..draws {
        let c = rng.below(5) as i64;
        // node creation through the public safe constructors (both routes draw from the process-wide generator)
        let fresh = if i % 2 == 0 {
            Treap::from_item(TItem::new(c))
        } else {
            Treap { root: Some(Box::new(TreapNode::new(TItem::new(c)))) }
        };
        prios.push(fresh.root.as_ref().unwrap().priority);
        let n = tr.size();
        let pos = rng.usize(n + 1);
        let (l, r) = tr.split_at(pos);
        tr = Treap::merge(Treap::merge(l, fresh), r);
        if i % 7 == 6 && tr.size() > 2 {
            let p = rng.usize(tr.size());
            tr.remove_at(p);
        }
        if i % 11 == 10 {
            let k = rng.usize(tr.size());
            let (l, r) = tr.split_at(k);
            let mut r = r;
            if let Some(it) = r.root_mut() {
                it.apply((1, 1 + rng.below(3) as i64));
            }
            tr = Treap::merge(l, r);
        }
        if tr.size() > 300 {
            // keep the per-thread treap small so that the run is dominated by node creation
            let (l, _r) = tr.split_at(100);
            tr = l;
        }
        if i % 40 == 39 {
            // printing the thread's own treap is an operation on it as well.  The text depends on the shape (hence on
            // this thread's priorities), so it is compared with the layout spec/show/Show.tla defines (TreePrint:
            // "<indent>- <item>", children 3 deeper, "- [None]" for a missing child), computed from the public fields
            fn layout(n: &Option<Box<TreapNode<TItem>>>, ind: usize, out: &mut String) {
                match n {
                    None => out.push_str(&format!("{}- [None]\n", " ".repeat(ind))),
                    Some(b) => {
                        out.push_str(&format!("{}- {:?}\n", " ".repeat(ind), b.item));
                        layout(&b.left, ind + 3, out);
                        layout(&b.right, ind + 3, out);
                    }
                }
            }
            let text = format!("{:?}", rlib_treap::TreePrinter::new(&tr));
            let mut want = String::new();
            layout(&tr.root, 0, &mut want);
            if text != want {
                printed += 1;
            }
        }
    }
    let obs: Vec<i64> = tr.collect().iter().map(|i| i.c).collect();
    let agg = tr.root().map(|i| (i.h, i.len)).unwrap_or((0, 0));
    let mut out = obs;
    out.push(agg.0);
    out.push(agg.1);
    out.push(printed as i64);
    (prios, out)
}

/// reference streams: node creations on single threads of a fresh process, one thread after the other.  Stream 0
/// (`n` draws) is what the first thread of a process observes, stream i (`per` draws) what the (i+1)-th thread that
/// ever creates a node observes when nothing runs concurrently (sequential semantics are not in question).
fn join_msg<T>(h: std::thread::JoinHandle<T>) -> Result<T, String> {
    h.join().map_err(|e| {
        if let Some(s) = e.downcast_ref::<&str>() { s.to_string() } else if let Some(s) = e.downcast_ref::<String>() { s.clone() } else { "panic".into() }
    })
}

pub fn record_solo(n: usize, streams: usize, per: usize, out: &str) {
    let mut t = TraceWriter::create(out);
    for idx in 0..streams.max(1) {
        let k = if idx == 0 { n } else { per };
        let h = std::thread::spawn(move || (0..k).map(|_| TreapNode::new(TItem::new(1)).priority).collect::<Vec<u32>>());
        match join_msg(h) {
            Ok(prios) => {
                for ch in prios.chunks(2000) {
                    t.ev(json!({"ev": "solo", "idx": idx, "prios": ch.iter().map(|&p| hi_lo(p)).collect::<Vec<_>>()}));
                }
            }
            // node creation panicked on this (the idx-th) thread although nothing ran concurrently
            Err(m) => t.ev(json!({"ev": "solo", "idx": idx, "prios": [], "panic": m})),
        }
    }
    let ev = t.finish();
    println!("{}", json!({"events": ev, "draws": n, "streams": streams}));
}

pub fn record_race(seed: u64, threads: usize, draws: usize, out: &str) {
    let barrier = std::sync::Arc::new(std::sync::Barrier::new(threads));
    let mut hs = vec![];
    for th in 0..threads {
        let b = barrier.clone();
        let s = seed.wrapping_mul(1000).wrapping_add(th as u64);
        hs.push(std::thread::spawn(move || {
            b.wait();
            race_script(s, draws)
        }));
    }
    let results: Vec<Result<(Vec<u32>, Vec<i64>), String>> = hs
        .into_iter()
        .map(|h| h.join().map_err(|e| {
            if let Some(s) = e.downcast_ref::<&str>() { s.to_string() } else if let Some(s) = e.downcast_ref::<String>() { s.clone() } else { "panic".into() }
        }))
        .collect();
    let mut t = TraceWriter::create(out);
    for (th, r) in results.iter().enumerate() {
        match r {
            Ok((prios, _)) => {
                for ch in prios.chunks(2000) {
                    t.ev(json!({"ev": "thread", "t": th, "prios": ch.iter().map(|&p| hi_lo(p)).collect::<Vec<_>>()}));
                }
            }
            Err(m) => t.ev(json!({"ev": "result", "t": th, "got": [m], "solo": []})),
        }
    }
    // the same scripts run alone, one after the other, on one fresh thread
    let seeds: Vec<u64> = (0..threads).map(|th| seed.wrapping_mul(1000).wrapping_add(th as u64)).collect();
    match join_msg(std::thread::spawn(move || seeds.iter().map(|&s| race_script(s, draws).1).collect::<Vec<Vec<i64>>>())) {
        Ok(solo) => {
            for (th, r) in results.iter().enumerate() {
                if let Ok((_, got)) = r {
                    t.ev(json!({"ev": "result", "t": th, "got": got, "solo": solo[th]}));
                }
            }
        }
        Err(m) => t.ev(json!({"ev": "result", "t": threads, "got": [m], "solo": []})),
    }
    let ev = t.finish();
    println!("{}", json!({"events": ev, "threads": threads, "draws_per_thread": draws}));
}

/// Many rounds of `threads` fresh threads released together, each creating its first `per` nodes: the moment a
/// thread's generator comes into being is where per-thread generators can interfere with each other.  One event.
pub fn record_starts(rounds: usize, threads: usize, per: usize, out: &str) {
    let mut t = TraceWriter::create(out);
    let mut streams: Vec<Value> = vec![];
    let mut panics: Vec<String> = vec![];
    for _ in 0..rounds {
        let barrier = std::sync::Arc::new(std::sync::Barrier::new(threads));
        let hs: Vec<_> = (0..threads)
            .map(|_| {
                let b = barrier.clone();
                std::thread::spawn(move || {
                    b.wait();
                    (0..per).map(|_| TreapNode::new(TItem::new(1)).priority).collect::<Vec<u32>>()
                })
            })
            .collect();
        for h in hs {
            match join_msg(h) {
                Ok(prios) => streams.push(json!(prios.iter().map(|&p| hi_lo(p)).collect::<Vec<_>>())),
                Err(m) => panics.push(m),
            }
        }
    }
    // staggered lifetimes: A and B draw and stay alive, A ends, then C draws while B is still alive; the streams of
    // B and C (both alive) are reported in one group together with A's
    for _ in 0..(rounds / 4).max(8) {
        let spawn_held = |per: usize| {
            let (tx, rx) = std::sync::mpsc::channel::<Vec<u32>>();
            let (stop_tx, stop_rx) = std::sync::mpsc::channel::<()>();
            let h = std::thread::spawn(move || {
                let prios: Vec<u32> = (0..per).map(|_| TreapNode::new(TItem::new(1)).priority).collect();
                let _ = tx.send(prios);
                let _ = stop_rx.recv();
            });
            (rx.recv(), stop_tx, h)
        };
        let (ra, stop_a, ha) = spawn_held(per);
        let (rb, stop_b, hb) = spawn_held(per);
        let _ = stop_a.send(());
        let ea = join_msg(ha);
        let (rc, stop_c, hc) = spawn_held(per);
        let _ = stop_b.send(());
        let _ = stop_c.send(());
        let eb = join_msg(hb);
        let ec = join_msg(hc);
        for (r, e) in [(ra, ea), (rb, eb), (rc, ec)] {
            match (r, e) {
                (Ok(prios), _) => streams.push(json!(prios.iter().map(|&p| hi_lo(p)).collect::<Vec<_>>())),
                (Err(_), Err(m)) => panics.push(m),
                (Err(_), Ok(())) => panics.push("thread ended without a result".into()),
            }
        }
    }
    t.ev(json!({"ev": "start_streams", "streams": streams, "panics": panics}));
    let ev = t.finish();
    println!("{}", json!({"events": ev, "threads": rounds * threads, "draws_per_thread": per}));
}

/// the reference for record_starts: `k` threads one after the other in a fresh process, `per` node creations each
pub fn record_solo_streams(k: usize, per: usize, out: &str) {
    let mut t = TraceWriter::create(out);
    let mut streams: Vec<Value> = vec![];
    let mut panics: Vec<String> = vec![];
    // one thread after the other draws, but every thread stays alive (parked) until all have drawn: nothing runs
    // concurrently, and a design that numbers its generators by the threads currently alive still hands out one
    // stream per thread
    let release = std::sync::Arc::new((std::sync::Mutex::new(false), std::sync::Condvar::new()));
    let mut parked = vec![];
    for _ in 0..k {
        let (tx, rx) = std::sync::mpsc::channel::<Vec<u32>>();
        let rel = release.clone();
        let h = std::thread::Builder::new().stack_size(128 * 1024).spawn(move || {
            let prios: Vec<u32> = (0..per).map(|_| TreapNode::new(TItem::new(1)).priority).collect();
            let _ = tx.send(prios);
            let (m, cv) = &*rel;
            let mut go = m.lock().unwrap();
            while !*go {
                go = cv.wait(go).unwrap();
            }
        }).expect("spawn");
        match rx.recv() {
            Ok(prios) => {
                streams.push(json!(prios.iter().map(|&p| hi_lo(p)).collect::<Vec<_>>()));
                parked.push(h);
            }
            Err(_) => {
                // the thread died before reporting (node creation panicked)
                panics.push(join_msg(h).err().unwrap_or_else(|| "thread ended without a result".into()));
            }
        }
    }
    {
        let (m, cv) = &*release;
        *m.lock().unwrap() = true;
        cv.notify_all();
    }
    for h in parked {
        let _ = h.join();
    }
    t.ev(json!({"ev": "solo_streams", "streams": streams, "panics": panics}));
    let ev = t.finish();
    println!("{}", json!({"events": ev, "streams": k}));
}

pub fn probe(k: usize, per: usize) {
    let mut ts: Vec<Treap<TItem>> = (0..k).map(|_| Treap::new()).collect();
    for round in 0..per {
        for tr in ts.iter_mut() {
            tr.insert_at(round, TItem::new(1));
        }
    }
    let mut hs: Vec<usize> = ts.iter().map(|tr| walk(&tr.root).0).collect();
    hs.sort();
    println!("k={} per={} max height {} median {} bound {}", k, per, hs[hs.len() - 1], hs[hs.len() / 2], 5.0 * ((per + 1) as f64).log2() + 20.0);
}
