//! C08 — rlib_io::Reader.  replay: TLC-emitted (input, source behaviour, script, expected results);
//! record: long inputs through the production buffer for ReaderTrace.tla.
use crate::util::*;
use rlib_io::Reader;
use serde_json::{json, Value};
use std::cell::Cell;
use std::collections::VecDeque;
use std::io::{self, Read};
use std::rc::Rc;

/// A `Read` that follows a script of outcomes: k > 0 = deliver exactly k bytes, 0 = ErrorKind::Interrupted,
/// -1 = end of input.  Where the real code asks differently from the model (less space offered, more reads)
/// the source stays lawful (delivers what fits / everything left) and counts the deviation as drift.
pub struct Scripted {
    data: Vec<u8>,
    pos: usize,
    sched: VecDeque<i64>,
    drift: Rc<Cell<u64>>,
    reads: Rc<Cell<u64>>,
}

impl Scripted {
    pub fn new(data: Vec<u8>, sched: Vec<i64>, drift: Rc<Cell<u64>>, reads: Rc<Cell<u64>>) -> Self {
        Scripted { data, pos: 0, sched: sched.into(), drift, reads }
    }
    fn deliver(&mut self, buf: &mut [u8], k: usize) -> usize {
        let k = k.min(buf.len()).min(self.data.len() - self.pos);
        buf[..k].copy_from_slice(&self.data[self.pos..self.pos + k]);
        self.pos += k;
        k
    }
}

impl Read for Scripted {
    fn read(&mut self, buf: &mut [u8]) -> io::Result<usize> {
        self.reads.set(self.reads.get() + 1);
        let rem = self.data.len() - self.pos;
        match self.sched.pop_front() {
            Some(0) => Err(io::Error::new(io::ErrorKind::Interrupted, "scripted EINTR")),
            Some(k) if k > 0 => {
                let got = self.deliver(buf, k as usize);
                if got != k as usize {
                    self.drift.set(self.drift.get() + 1);
                }
                Ok(got)
            }
            Some(_) => {
                if rem > 0 {
                    self.drift.set(self.drift.get() + 1);
                }
                Ok(self.deliver(buf, rem))
            }
            None => {
                if rem > 0 {
                    self.drift.set(self.drift.get() + 1);
                }
                Ok(self.deliver(buf, rem))
            }
        }
    }
}

fn bytes_of(v: &Value) -> Vec<u8> {
    v.as_array().unwrap().iter().map(|x| x.as_u64().unwrap() as u8).collect()
}

fn str_bytes(s: &str) -> Value {
    json!(s.chars().map(|c| c as u32).collect::<Vec<u32>>())
}

/// integer widths the script is run with
#[derive(Clone, Copy, Debug)]
enum W {
    W8,
    W16,
    W32,
    W64,
    W128,
    WSize,
}

fn read_int(r: &mut Reader, signed: bool, w: W) -> i128 {
    match (signed, w) {
        (true, W::W8) => r.read::<i8>() as i128,
        (true, W::W16) => r.read::<i16>() as i128,
        (true, W::W32) => r.read::<i32>() as i128,
        (true, W::W64) => r.read::<i64>() as i128,
        (true, W::W128) => r.read::<i128>(),
        (true, W::WSize) => r.read::<isize>() as i128,
        (false, W::W8) => r.read::<u8>() as i128,
        (false, W::W16) => r.read::<u16>() as i128,
        (false, W::W32) => r.read::<u32>() as i128,
        (false, W::W64) => r.read::<u64>() as i128,
        (false, W::W128) => r.read::<u128>() as i128,
        (false, W::WSize) => r.read::<usize>() as i128,
    }
}

fn fits(v: i128, signed: bool, w: W) -> bool {
    let bits = match w {
        W::W8 => 8,
        W::W16 => 16,
        W::W32 => 32,
        W::W64 | W::WSize => 64,
        W::W128 => 127,
    };
    if signed {
        v >= -(1i128 << (bits - 1)) && v < (1i128 << (bits - 1))
    } else {
        v >= 0 && (bits >= 127 || v < (1i128 << bits))
    }
}

/// Runs one call; returns the observed result in the same shape as the spec's `want`.
fn run_call(r: &mut Reader, k: &str, w: W) -> Value {
    match k {
        "str" => json!({"t": "s", "v": str_bytes(&r.read::<String>())}),
        "char" => json!({"t": "c", "v": r.read::<char>() as u32}),
        "int" => json!({"t": "i", "v": read_int(r, true, w) as i64}),
        "uint" => json!({"t": "i", "v": read_int(r, false, w) as i64}),
        "eof" => json!({"t": "b", "v": r.is_eof()}),
        "line" => match r.read_line() {
            None => json!({"t": "none"}),
            Some(s) => json!({"t": "s", "v": str_bytes(&s)}),
        },
        "lines" => json!({"t": "ls", "v": r.read_lines().iter().map(|s| str_bytes(s)).collect::<Vec<_>>()}),
        _ => panic!("harness: unknown call kind {}", k),
    }
}

pub fn replay(cases_path: &str, out: &str) {
    let mut v = Verdict::new();
    let mut drift_cases = 0u64;
    let mut with_eintr = 0u64;
    let mut nontrivial = 0u64;
    let mut distinct_inputs = std::collections::HashSet::new();
    let bufsize = Reader::VERIF_BUF_SIZE;
    for_each_case(cases_path, |case| {
        v.cases += 1;
        let inp = bytes_of(&case["inp"]);
        let calls = arr(&case, "calls");
        let mut sched: Vec<i64> = vec![];
        for c in calls {
            sched.extend(arr(c, "log").iter().map(|x| x.as_i64().unwrap()));
        }
        let has_eintr = sched.contains(&0);
        if has_eintr {
            with_eintr += 1;
        }
        if has_eintr || sched.iter().filter(|&&k| k > 0).count() > 1 {
            nontrivial += 1;
        }
        distinct_inputs.insert(inp.clone());
        if v.cases % 9973 == 1 {
            v.sample(case.clone());
        }
        // which integer widths can hold every integer the script reads
        let mut widths = vec![W::W32, W::W64, W::W128, W::WSize, W::W16, W::W8];
        for c in calls {
            let k = gets(c, "k");
            if k == "int" || k == "uint" {
                let val = c["want"]["v"].as_i64().unwrap() as i128;
                widths.retain(|&w| fits(val, k == "int", w));
            }
        }
        let has_int = calls.iter().any(|c| matches!(gets(c, "k"), "int" | "uint"));
        if !has_int {
            widths.truncate(1);
        }
        for &w in &widths {
            let drift = Rc::new(Cell::new(0u64));
            let reads = Rc::new(Cell::new(0u64));
            let src = Scripted::new(inp.clone(), sched.clone(), drift.clone(), reads.clone());
            // (the constructor may already talk to the source)
            let mut rd = match catch(|| Reader::new(Box::new(src))) {
                Ok(rd) => rd,
                Err(msg) => {
                    v.checks += 1;
                    let tag = if has_eintr { " [source raised Interrupted]" } else { "" };
                    v.mismatch(&format!("reader.new: panic{}", tag), json!({"case": case, "width": format!("{:?}", w), "buf_size": bufsize, "panic": msg}));
                    continue;
                }
            };
            for (i, c) in calls.iter().enumerate() {
                let k = gets(c, "k");
                let want = &c["want"];
                v.checks += 1;
                let got = catch(|| run_call(&mut rd, k, w));
                let tag = if has_eintr { " [source raised Interrupted]" } else { "" };
                match got {
                    Err(msg) => {
                        v.mismatch(&format!("reader.{}: panic{}", k, tag),
                                   json!({"case": case, "step": i, "width": format!("{:?}", w), "buf_size": bufsize, "panic": msg, "want": want}));
                        break;
                    }
                    Ok(g) if &g != want => {
                        v.mismatch(&format!("reader.{}: wrong result{}", k, tag),
                                   json!({"case": case, "step": i, "width": format!("{:?}", w), "buf_size": bufsize, "got": g, "want": want}));
                        break;
                    }
                    _ => {}
                }
            }
            if drift.get() > 0 {
                drift_cases += 1;
            }
        }
    });
    v.extra.insert("buf_size".into(), json!(bufsize));
    v.extra.insert("model_drift_cases".into(), json!(drift_cases));
    v.extra.insert("cases_with_interrupted".into(), json!(with_eintr));
    v.extra.insert("nontrivial_cases".into(), json!(nontrivial));
    v.extra.insert("distinct_inputs".into(), json!(distinct_inputs.len()));
    v.write(out);
}

// ------------------------------------------------------------------------------------------- record

#[derive(Clone, Debug)]
enum Ty {
    I8, I16, I32, I64, I128, ISize, U8, U16, U32, U64, U128, USize, Str, Char,
}

const INT_TYS: [Ty; 12] = [Ty::I8, Ty::I16, Ty::I32, Ty::I64, Ty::I128, Ty::ISize, Ty::U8, Ty::U16, Ty::U32, Ty::U64, Ty::U128, Ty::USize];

#[derive(Clone, Debug)]
enum Op {
    Tok(Ty),
    Seq(Vec<Ty>),
    Line,
    Lines,
    Eof,
}

fn int_text(rng: &mut Rng, ty: &Ty) -> String {
    let (signed, bits) = match ty {
        Ty::I8 => (true, 8), Ty::I16 => (true, 16), Ty::I32 => (true, 32), Ty::I64 | Ty::ISize => (true, 64), Ty::I128 => (true, 128),
        Ty::U8 => (false, 8), Ty::U16 => (false, 16), Ty::U32 => (false, 32), Ty::U64 | Ty::USize => (false, 64), Ty::U128 => (false, 128),
        _ => unreachable!(),
    };
    let raw = ((rng.u64() as u128) << 64) | rng.u64() as u128;
    let s = if signed {
        let min: i128 = if bits == 128 { i128::MIN } else { -(1i128 << (bits - 1)) };
        let max: i128 = if bits == 128 { i128::MAX } else { (1i128 << (bits - 1)) - 1 };
        let v = match rng.below(10) {
            0 => min,
            1 => max,
            2 => 0,
            3 => -1,
            4 => min + 1 + rng.below(9) as i128,
            5 => max - rng.below(9) as i128,
            6 => rng.below(200) as i128 - 100,
            _ => {
                // random magnitude of random bit length
                let bl = 1 + rng.below(bits as u64 - 1) as u32;
                let m = (raw >> (128 - bl)) as i128;
                if rng.chance(1, 2) { -m } else { m }
            }
        };
        v.to_string()
    } else {
        let max: u128 = if bits == 128 { u128::MAX } else { (1u128 << bits) - 1 };
        let v = match rng.below(8) {
            0 => 0,
            1 => max,
            2 => max - rng.below(9) as u128,
            3 => rng.below(200) as u128,
            _ => {
                let bl = 1 + rng.below(bits as u64) as u32;
                raw >> (128 - bl)
            }
        };
        v.to_string()
    };
    // occasionally a leading zero (still a valid decimal token, same value) when it cannot overflow the digit loop
    if rng.chance(1, 40) && s.len() < 3 {
        if let Some(rest) = s.strip_prefix('-') {
            return format!("-0{}", rest);
        }
        return format!("0{}", s);
    }
    s
}

fn tok_text(rng: &mut Rng, ty: &Ty) -> String {
    match ty {
        Ty::Str => {
            let len = match rng.below(20) {
                0 => 1,
                1 => 200 + rng.usize(2000),
                _ => 1 + rng.usize(30),
            };
            (0..len).map(|_| (33 + rng.below(94) as u8) as char).collect()
        }
        Ty::Char => ((33 + rng.below(94) as u8) as char).to_string(),
        t => int_text(rng, t),
    }
}

fn ws(rng: &mut Rng) -> &'static str {
    *rng.pick(&[" ", " ", " ", "\n", "\n", "\t", "\r\n", "  ", "\x0C", " \n ", "\r", "\n\n", " \r\n\r\n "])
}

fn rand_ty(rng: &mut Rng) -> Ty {
    match rng.below(16) {
        0..=11 => INT_TYS[rng.usize(12)].clone(),
        12 | 13 => Ty::Str,
        _ => Ty::Char,
    }
}

/// Builds an input text together with a script whose calls are all inside the property's quantifier.
fn build(rng: &mut Rng, target_len: usize, style: u64) -> (Vec<u8>, Vec<Op>) {
    let mut text = String::new();
    let mut ops = vec![];
    let mut after_token = false;
    // is_eof() swallows all whitespace that follows, so whatever is written next must start with a
    // non-whitespace byte for the script to stay aligned with the text
    let mut after_eof = false;
    while text.len() < target_len {
        let roll = rng.below(100);
        let line_heavy = style % 3 == 1;
        if roll < if line_heavy { 25 } else { 70 } {
            // token(s)
            let tys: Vec<Ty> = if rng.chance(1, 5) { (0..2 + rng.usize(7)).map(|_| rand_ty(rng)).collect() } else { vec![rand_ty(rng)] };
            for (i, t) in tys.iter().enumerate() {
                if after_token || i > 0 || rng.chance(1, 3) || matches!(t, Ty::Char) && text.ends_with(|c: char| !c.is_ascii_whitespace()) {
                    text.push_str(ws(rng));
                }
                // a token must not glue to a previous non-whitespace byte
                if text.ends_with(|c: char| !c.is_ascii_whitespace()) {
                    text.push(' ');
                }
                text.push_str(&tok_text(rng, t));
                after_token = true;
                after_eof = false;
            }
            if tys.len() == 1 {
                ops.push(Op::Tok(tys[0].clone()));
            } else {
                ops.push(Op::Seq(tys));
            }
        } else if roll < 92 {
            // a line: rest of the current line
            let mut junk = String::new();
            let n = match rng.below(6) { 0 => 0, 1 => 1, _ => rng.usize(40) };
            for _ in 0..n {
                junk.push(match rng.below(12) { 0 => '\r', 1 => ' ', 2 => '\t', _ => (33 + rng.below(94) as u8) as char });
            }
            if after_eof {
                junk.insert(0, (33 + rng.below(94) as u8) as char);
            } else if after_token && !junk.is_empty() && !junk.starts_with(|c: char| c.is_ascii_whitespace()) {
                junk.insert(0, ' ');
            }
            after_eof = false;
            text.push_str(&junk);
            text.push_str(if rng.chance(1, 2) { "\n" } else { "\r\n" });
            ops.push(Op::Line);
            after_token = false;
        } else {
            if after_token || rng.chance(1, 2) {
                text.push_str(ws(rng));
                after_token = false;
            }
            after_eof = true;
            ops.push(Op::Eof);
        }
    }
    // the tail: unterminated last line / trailing CR / trailing whitespace, then lines or eof tests
    match rng.below(6) {
        0 => {
            if after_token {
                text.push('\n');
            }
            text.push_str("tail")
        }
        1 => text.push_str(" x\r"),
        2 => text.push('\r'),
        3 => text.push_str("\n\r"),
        4 => text.push_str("  \n"),
        _ => {}
    }
    match rng.below(3) {
        0 => ops.push(Op::Lines),
        1 => {
            for _ in 0..4 {
                ops.push(Op::Line);
            }
        }
        _ => ops.push(Op::Eof),
    }
    ops.push(Op::Line);
    ops.push(Op::Eof);
    (text.into_bytes(), ops)
}

fn schedule(rng: &mut Rng, len: usize, mode: u64, eintr: bool) -> Vec<i64> {
    let mut s = vec![];
    let mut left = len as i64;
    let buf = Reader::VERIF_BUF_SIZE as i64;
    let mut first = true;
    while left > 0 {
        if eintr && rng.chance(1, 6) {
            s.push(0);
            continue;
        }
        let k = match mode {
            0 => 1,
            1 => 1 + rng.below(7) as i64,
            2 => 1 + rng.below(300) as i64,
            3 => buf,
            4 => {
                // aligned to the internal buffer size +- k
                if first { buf - rng.below(40) as i64 } else { buf }
            }
            5 => 1 + rng.below(2 * buf as u64) as i64,
            _ => *rng.pick(&[1, 2, 3, buf - 1, buf, 17, 4096]),
        };
        first = false;
        let k = k.min(left).min(buf).max(1);
        s.push(k);
        left -= k;
    }
    if eintr {
        s.push(0);
    }
    s
}

fn int_event(signed: bool, v: i128, uv: u128) -> Value {
    if signed {
        let (neg, mag) = signed_limbs(v);
        json!({"ev": "int", "signed": true, "neg": neg, "mag": mag})
    } else {
        json!({"ev": "int", "signed": false, "neg": false, "mag": limbs(uv)})
    }
}

fn read_ty(r: &mut Reader, t: &Ty) -> Value {
    match t {
        Ty::I8 => int_event(true, r.read::<i8>() as i128, 0),
        Ty::I16 => int_event(true, r.read::<i16>() as i128, 0),
        Ty::I32 => int_event(true, r.read::<i32>() as i128, 0),
        Ty::I64 => int_event(true, r.read::<i64>() as i128, 0),
        Ty::I128 => int_event(true, r.read::<i128>(), 0),
        Ty::ISize => int_event(true, r.read::<isize>() as i128, 0),
        Ty::U8 => int_event(false, 0, r.read::<u8>() as u128),
        Ty::U16 => int_event(false, 0, r.read::<u16>() as u128),
        Ty::U32 => int_event(false, 0, r.read::<u32>() as u128),
        Ty::U64 => int_event(false, 0, r.read::<u64>() as u128),
        Ty::U128 => int_event(false, 0, r.read::<u128>()),
        Ty::USize => int_event(false, 0, r.read::<usize>() as u128),
        Ty::Str => json!({"ev": "str", "res": str_bytes(&r.read::<String>())}),
        Ty::Char => json!({"ev": "char", "res": r.read::<char>() as u32}),
    }
}

fn skeleton(t: &Ty) -> Value {
    match t {
        Ty::Str => json!({"ev": "str"}),
        Ty::Char => json!({"ev": "char"}),
        Ty::I8 | Ty::I16 | Ty::I32 | Ty::I64 | Ty::I128 | Ty::ISize => json!({"ev": "int", "signed": true}),
        _ => json!({"ev": "int", "signed": false}),
    }
}

/// tuple / vector reads through the crate's own composite Readable impls where the types are uniform
fn read_seq(r: &mut Reader, tys: &[Ty]) -> Vec<Value> {
    // homogeneous i64 / u32 / String vectors go through read_vec, pairs and triples through tuple impls
    let all = |p: fn(&Ty) -> bool| tys.iter().all(p);
    if all(|t| matches!(t, Ty::I64)) {
        return r.read_vec::<i64>(tys.len()).into_iter().map(|v| int_event(true, v as i128, 0)).collect();
    }
    if all(|t| matches!(t, Ty::U32)) {
        return r.read_vec::<u32>(tys.len()).into_iter().map(|v| int_event(false, 0, v as u128)).collect();
    }
    if all(|t| matches!(t, Ty::Str)) {
        return r.read_vec::<String>(tys.len()).into_iter().map(|s| json!({"ev": "str", "res": str_bytes(&s)})).collect();
    }
    if tys.len() == 2 {
        if let (Ty::I32, Ty::Str) = (&tys[0], &tys[1]) {
            let (a, b) = r.read::<(i32, String)>();
            return vec![int_event(true, a as i128, 0), json!({"ev": "str", "res": str_bytes(&b)})];
        }
    }
    if tys.len() == 3 {
        if let (Ty::U64, Ty::Char, Ty::I128) = (&tys[0], &tys[1], &tys[2]) {
            let (a, b, c) = r.read::<(u64, char, i128)>();
            return vec![int_event(false, 0, a as u128), json!({"ev": "char", "res": b as u32}), int_event(true, c, 0)];
        }
    }
    tys.iter().map(|t| read_ty(r, t)).collect()
}

pub fn record(seed: u64, tier: &str, out: &str) {
    let thorough = tier == "thorough";
    let mut rng = Rng::new(seed ^ 0xC08);
    let mut t = TraceWriter::create(out);
    let runs = if thorough { 120 } else { 12 };
    let mut stats = (0u64, 0u64, 0u64); // bytes, reads, runs with EINTR
    let mut jobs: Vec<(Vec<u8>, Vec<Op>, u64)> = vec![];
    for run in 0..runs {
        let target = match run % 8 {
            0 => 40 + rng.usize(200),
            1 => 70_000 + rng.usize(3000),
            2 => 65_536 - 20 + rng.usize(40),
            3 => 3 * 65_536 + rng.usize(100),
            _ => 2000 + rng.usize(if thorough { 60_000 } else { 12_000 }),
        };
        let (mut text, mut ops) = build(&mut rng, target, run);
        // make some homogeneous / tuple shapes so that read_vec and tuple impls are exercised
        if run % 4 == 2 {
            let mut extra = String::from("\n");
            let n = 3 + rng.usize(6);
            for _ in 0..n {
                extra.push_str(&int_text(&mut rng, &Ty::I64));
                extra.push(' ');
            }
            extra.push_str("-17 word 18446744073709551615 Z -170141183460469231731687303715884105728\n");
            let mut pre = vec![Op::Seq(vec![Ty::I64; n]), Op::Seq(vec![Ty::I32, Ty::Str]), Op::Seq(vec![Ty::U64, Ty::Char, Ty::I128]), Op::Line];
            let mut bytes = extra.into_bytes();
            bytes.extend_from_slice(&text);
            text = bytes;
            pre.extend(ops);
            ops = pre;
            // the first pre-line consumed the leading "\n": the Seq skips it as whitespace
        }
        jobs.push((text, ops, run));
    }
    // wrap probes: line-oriented inputs a little longer than k internal buffers, dense in LF and CR, ending in a
    // lone CR (whatever the buffer holds past the end of the data is a byte consumed exactly k buffers earlier)
    let probes = if thorough { 36 } else { 6 };
    for run in runs..runs + probes {
        let p = run - runs;
        let bs = Reader::VERIF_BUF_SIZE.max(4) as usize;
        let len = bs * (1 + (p % 2) as usize) + 1 + rng.usize(if p % 3 == 0 { 3 } else { 300 });
        // dense around the buffer boundaries and at both ends, long lines elsewhere (keeps the number of lines small)
        let mut text: Vec<u8> = (0..len).map(|i| {
            let dense = i < 400 || i + 400 > len || (i % bs) < 400 || (i % bs) + 8 > bs;
            if dense { match rng.usize(10) { 0..=3 => b'\n', 4..=5 => b'\r', 6 => b' ', _ => b'x' } }
            else if rng.usize(400) == 0 { b'\n' } else { b'x' }
        }).collect();
        text[len - 1] = b'\r';
        if p % 2 == 0 { text[len - bs] = b'\n'; text[len - 2] = b'x'; }
        let mut ops = vec![];
        for _ in 0..rng.usize(4) { ops.push(Op::Line); }
        ops.push(Op::Lines);
        ops.push(Op::Eof);
        ops.push(Op::Line);
        jobs.push((text, ops, run));
    }
    for (text, ops, run) in jobs {
        let eintr = run % 3 == 1;
        let sched = schedule(&mut rng, text.len(), run % 7, eintr);
        if eintr {
            stats.2 += 1;
        }
        stats.0 += text.len() as u64;
        t.ev(json!({"ev": "reset", "inp": text, "mode": run % 7, "eintr": eintr}));
        let drift = Rc::new(Cell::new(0u64));
        let reads = Rc::new(Cell::new(0u64));
        let src = Scripted::new(text.clone(), sched, drift.clone(), reads.clone());
        let mut rd = match catch(|| Reader::new(Box::new(src))) {
            Ok(rd) => rd,
            Err(msg) => {
                // judged like a panicking first call
                t.ev(json!({"ev": "eof", "panic": msg, "op": "Reader::new"}));
                continue;
            }
        };
        for op in &ops {
            let res = catch(|| match op {
                Op::Tok(ty) => read_ty(&mut rd, ty),
                Op::Seq(tys) => json!({"ev": "seq", "items": read_seq(&mut rd, tys)}),
                Op::Line => match rd.read_line() {
                    None => json!({"ev": "line", "none": true}),
                    Some(s) => json!({"ev": "line", "none": false, "res": str_bytes(&s)}),
                },
                Op::Lines => json!({"ev": "lines", "res": rd.read_lines().iter().map(|s| str_bytes(s)).collect::<Vec<_>>()}),
                Op::Eof => json!({"ev": "eof", "res": rd.is_eof()}),
            });
            match res {
                Ok(ev) => t.ev(ev),
                Err(msg) => {
                    let mut ev = match op {
                        Op::Tok(ty) => skeleton(ty),
                        Op::Seq(tys) => json!({"ev": "seq", "items": tys.iter().map(skeleton).collect::<Vec<_>>()}),
                        Op::Line => json!({"ev": "line"}),
                        Op::Lines => json!({"ev": "lines"}),
                        Op::Eof => json!({"ev": "eof"}),
                    };
                    ev["panic"] = json!(msg);
                    ev["op"] = json!(format!("{:?}", op));
                    t.ev(ev);
                    break;
                }
            }
        }
        stats.1 += reads.get();
    }
    let ev = t.finish();
    println!("{}", json!({"events": ev, "runs": runs + probes, "wrap_probes": probes, "input_bytes": stats.0, "source_reads": stats.1, "runs_with_interrupted": stats.2, "buf_size": Reader::VERIF_BUF_SIZE}));
}
