//! C04 — rlib_fft::FFT<F>.  replay: TLC-emitted call histories on one reused object (and on fresh objects);
//! record: long histories with envelope-sized coefficients for FftTrace.tla.
use crate::util::*;
use rlib_fft::{Complex, FFT};
use serde_json::{json, Value};

fn ints(v: &Value) -> Vec<i32> {
    v.as_array().unwrap().iter().map(|x| x.as_i64().unwrap() as i32).collect()
}
fn longs(v: &Value) -> Vec<i64> {
    v.as_array().unwrap().iter().map(|x| x.as_i64().unwrap()).collect()
}

macro_rules! run_call {
    ($fft:expr, $kind:expr, $a:expr, $b:expr, $dst:expr, $n:expr) => {{
        match $kind {
            "multiply" => $fft.multiply($a, $b),
            "multiply_into" | "multiply_into_short" => {
                let mut d: Vec<i64> = $dst.clone();
                $fft.multiply_into($a, $b, &mut d);
                d
            }
            "inv_into" | "inv_into_short" => {
                let fa = $fft.fft($a, $n);
                let fb = $fft.fft($b, $n);
                let prod: Vec<_> = fa.iter().zip(fb.iter()).map(|(x, y)| *x * *y).collect();
                let mut d: Vec<i64> = $dst.clone();
                $fft.fft_inv_into(&prod, &mut d);
                d
            }
            _ => {
                let fa = $fft.fft($a, $n);
                let fb = $fft.fft($b, $n);
                let prod: Vec<_> = fa.iter().zip(fb.iter()).map(|(x, y)| *x * *y).collect();
                $fft.fft_inv(&prod)
            }
        }
    }};
}

pub fn replay(cases_path: &str, out: &str) {
    let mut v = Verdict::new();
    let mut nontrivial = 0u64;
    for_each_case(cases_path, |case| {
        v.cases += 1;
        if v.cases % 211 == 1 {
            v.sample(case.clone());
        }
        let hist = arr(&case, "hist");
        if hist.len() >= 2 {
            nontrivial += 1;
        }
        // one reused object per float type for the whole history; plus a fresh object for every call
        // (every second history on objects obtained through Default, the other public way to make one)
        let mut f64_obj: FFT<f64> = if v.cases % 2 == 0 { FFT::new() } else { FFT::default() };
        let mut f32_obj: FFT<f32> = if v.cases % 2 == 0 { FFT::new() } else { FFT::default() };
        for (k, c) in hist.iter().enumerate() {
            let kind = gets(c, "kind");
            let (a, b) = (ints(&c["a"]), ints(&c["b"]));
            let dst = longs(&c["dst"]);
            let n = getu(c, "n");
            let want = longs(&c["want"]);
            let results: Vec<(&str, Result<Vec<i64>, String>)> = vec![
                ("f64 reused", catch(|| run_call!(f64_obj, kind, &a, &b, dst, n))),
                ("f32 reused", catch(|| run_call!(f32_obj, kind, &a, &b, dst, n))),
                ("f64 fresh", catch(|| { let mut o: FFT<f64> = FFT::new(); run_call!(o, kind, &a, &b, dst, n) })),
                ("f32 fresh", catch(|| { let mut o: FFT<f32> = FFT::new(); run_call!(o, kind, &a, &b, dst, n) })),
                ("f64 fresh default", catch(|| { let mut o: FFT<f64> = FFT::default(); run_call!(o, kind, &a, &b, dst, n) })),
                ("f32 fresh default", catch(|| { let mut o: FFT<f32> = Default::default(); run_call!(o, kind, &a, &b, dst, n) })),
            ];
            for (who, r) in results {
                v.checks += 1;
                match r {
                    Err(m) => v.mismatch(&format!("fft.{}: panic", kind), json!({"case": case, "step": k, "object": who, "panic": m})),
                    Ok(got) if got != want => v.mismatch(&format!("fft.{}: not the integer convolution", kind),
                                                         json!({"case": case, "step": k, "object": who, "got": got, "want": want})),
                    _ => {}
                }
            }
        }
    });
    v.extra.insert("nontrivial_cases".into(), json!(nontrivial));
    v.write(out);
}

fn bi(v: i64) -> Value {
    let (neg, mag) = signed_limbs(v as i128);
    json!({"neg": neg, "mag": mag})
}

fn coeffs(rng: &mut Rng, len: usize, max: i64, style: u64) -> Vec<i32> {
    (0..len).map(|i| match style % 4 {
        0 => rng.range_i64(0, max),
        1 => rng.range_i64(-max, 0),
        2 => rng.range_i64(-max, max),
        _ => if i % 2 == 0 { max } else { -max },
    } as i32).collect()
}

fn pick_idx(rng: &mut Rng, total: usize, la: usize, lb: usize) -> Vec<usize> {
    if total <= 96 {
        return (0..total).collect();
    }
    // long outputs: both ends, around powers of two, and random indices whose sums have a bounded number of terms
    let mut idx: Vec<usize> = (0..24).chain(total - 24..total).collect();
    let short = la.min(lb);
    for _ in 0..40 {
        let k = rng.usize(total);
        let terms = (k + 1).min(short).min(total - k);
        if terms <= 300 {
            idx.push(k);
        }
    }
    let mut p = 64;
    while p + 1 < total {
        if (p + 1).min(short) <= 300 {
            idx.extend_from_slice(&[p - 1, p, p + 1]);
        }
        p *= 2;
    }
    idx.sort();
    idx.dedup();
    idx
}

macro_rules! record_with {
    ($F:ty, $fname:expr, $t:expr, $rng:expr, $calls:expr, $maxlen:expr, $envelope:expr) => {{
        let mut obj: FFT<$F> = FFT::new();
        let mut seq = 0u64;
        for call in 0..$calls {
            let rng: &mut Rng = $rng;
            // size sequence: big -> small -> big, 2^k, 2^k + 1, random
            let pw = 1usize << (1 + rng.below(($maxlen as f64).log2() as u64));
            let (la, lb) = match call % 6 {
                0 => (pw, pw),
                1 => (pw / 2 + 1, pw / 2),
                2 => (1 + rng.usize(8), 1 + rng.usize(8)),
                3 => (1 + rng.usize(40), 1 + rng.usize($maxlen)),
                4 => ((pw + 1).min($maxlen), 1 + rng.usize(33)),
                _ => (1 + rng.usize($maxlen.min(600)), 1 + rng.usize($maxlen.min(600))),
            };
            // magnitudes inside the envelope: max^2 * max(len) <= envelope
            let lim = (($envelope as f64) / la.max(lb) as f64).sqrt().floor() as i64;
            let max = match rng.below(4) { 0 => lim, 1 => 1.max(lim / 10), 2 => 1.max(lim.min(9)), _ => 1 + rng.below(lim.max(1) as u64) as i64 }.max(1).min(1_000_000);
            let (sa, sb) = (rng.below(4), rng.below(4));
            let a = coeffs(rng, la, max, sa);
            let b = coeffs(rng, lb, max, sb);
            let kind = ["multiply", "multiply_into", "pointwise", "multiply", "inv_into", "multiply_into_short", "inv_into_short"][call % 7];
            let mut n = 2;
            while n < la + lb - 1 { n *= 2; }
            let dlen = match kind { "multiply_into" => la + lb + 2, "inv_into" => n + 5, "multiply_into_short" => (la + lb).saturating_sub(2).max(1),
                                    "inv_into_short" => la + lb - 1, _ => 0 };
            let dst: Vec<i64> = (0..dlen).map(|i| (i as i64 % 7) - 3).collect();
            let r = catch(|| run_call!(obj, kind, &a, &b, dst, n));
            seq += 1;
            let mut ev = json!({"ev": "call", "kind": kind, "float": $fname, "a": a, "b": b, "dst": dst, "n": n, "seq": seq, "max": max});
            match r {
                Ok(res) => {
                    let idx = pick_idx(rng, res.len(), la, lb);
                    ev["len"] = json!(res.len());
                    ev["res"] = json!(idx.iter().map(|&k| bi(res[k])).collect::<Vec<_>>());
                    ev["idx"] = json!(idx);
                }
                Err(p) => ev["panic"] = json!(p),
            }
            $t.ev(ev);
        }
    }};
}

macro_rules! complex_table {
    ($F:ty, $name:expr, $t:expr, $k:expr) => {{
        let k: i64 = $k;
        let c = |x: i64, y: i64| Complex::<$F>::new(x as $F, y as $F);
        let p = |z: Complex<$F>| json!([z.x as i64, z.y as i64]);
        for a in -k..=k {
            let r = catch(|| {
                let mut rows = vec![];
                for b in -k..=k {
                    for cc in -k..=k {
                        for d in -k..=k {
                            let (x, y) = (c(a, b), c(cc, d));
                            let mut ma = x;
                            ma *= y;
                            let n2 = cc * cc + d * d;
                            let q = (a * cc + b * d, b * cc - a * d);
                            let div = if n2 != 0 && q.0 % n2 == 0 && q.1 % n2 == 0 { p(x / y) } else { json!([]) };
                            rows.push(json!([a, b, cc, d, p(x + y), p(x - y), p(x * y), p(ma), p(-x), p(x.conj()), x.abs2() as i64, p(x * (cc as $F)), div]));
                        }
                    }
                }
                rows
            });
            match r {
                Ok(rows) => $t.ev(json!({"ev": "tab", "float": $name, "k": k, "rows": rows})),
                Err(pn) => $t.ev(json!({"ev": "tab", "float": $name, "k": k, "panic": pn})),
            }
        }
    }};
}

/// beyond the listed properties: Complex<F> against Gaussian-integer arithmetic (ComplexTrace.tla)
pub fn record_complex(tier: &str, out: &str) {
    let mut t = TraceWriter::create(out);
    let k = if tier == "thorough" { 6 } else { 4 };
    complex_table!(f64, "f64", t, k);
    complex_table!(f32, "f32", t, k);
    let ev = t.finish();
    println!("{}", json!({"events": ev, "runs": 2}));
}

pub fn record(seed: u64, tier: &str, out: &str) {
    let thorough = tier == "thorough";
    let mut rng = Rng::new(seed ^ 0xC04);
    let mut t = TraceWriter::create(out);
    // empty operands
    {
        let mut o: FFT<f64> = FFT::new();
        let r = o.multiply(&[], &[1, 2]);
        t.ev(json!({"ev": "call", "kind": "multiply", "float": "f64", "a": [], "b": [1, 2], "dst": [], "n": 2, "seq": 0, "len": r.len(), "idx": [], "res": []}));
    }
    let (calls, maxlen) = if thorough { (260, 1usize << 16) } else { (70, 1usize << 12) };
    record_with!(f64, "f64", t, &mut rng, calls, maxlen, 1e12);
    record_with!(f32, "f32", t, &mut rng, calls / 2, maxlen.min(1 << 9), 1e3);
    let ev = t.finish();
    println!("{}", json!({"events": ev, "runs": 2, "nontrivial": ev}));
}
