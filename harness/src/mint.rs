//! C06 — rlib_mint::Modular<M>.  record: complete operation tables for every small modulus and single
//! operations with witnesses on 31-bit moduli, for MintTrace.tla.
use crate::util::*;
use rlib_io::{Reader, Writer};
use rlib_mint::Modular;
use serde_json::{json, Value};
use std::cell::RefCell;
use std::rc::Rc;

fn bi(v: i128) -> Value {
    let (neg, mag) = signed_limbs(v);
    json!({"neg": neg, "mag": mag})
}
fn bn(v: u128) -> Value {
    json!(limbs(v))
}

fn tables<const M: u32>(t: &mut TraceWriter) {
    let m = M as i64;
    let mk = |x: i64| Modular::<M>::new(x);
    type F<const M: u32> = fn(Modular<M>, Modular<M>) -> Modular<M>;
    let bin: Vec<(&str, F<M>)> = vec![
        ("add", |a, b| a + b),
        ("add_assign", |mut a, b| { a += b; a }),
        ("sub", |a, b| a - b),
        ("sub_assign", |mut a, b| { a -= b; a }),
        ("mul", |a, b| a * b),
        ("mul_assign", |mut a, b| { a *= b; a }),
        ("div", |a, b| a / b),
        ("div_assign", |mut a, b| { a /= b; a }),
    ];
    for (name, f) in bin {
        let r = catch(|| (0..m).map(|x| (0..m).map(|y| f(mk(x), mk(y)).inner()).collect::<Vec<u32>>()).collect::<Vec<_>>());
        match r {
            Ok(rows) => t.ev(json!({"ev": "tab", "m": M, "op": name, "rows": rows})),
            Err(p) => t.ev(json!({"ev": "tab", "m": M, "op": name, "rows": [], "panic": p})),
        }
    }
    let un = |t: &mut TraceWriter, name: &str, r: Result<Vec<u32>, String>| match r {
        Ok(rows) => t.ev(json!({"ev": "tab", "m": M, "op": name, "rows": rows})),
        Err(p) => t.ev(json!({"ev": "tab", "m": M, "op": name, "rows": [], "panic": p})),
    };
    un(t, "neg", catch(|| (0..m).map(|x| (-mk(x)).inner()).collect()));
    un(t, "inv", catch(|| (0..m).map(|x| mk(x).inv().inner()).collect()));
    un(t, "new", catch(|| (-3 * m..=3 * m).map(|v| mk(v).inner()).collect()));
    match catch(|| (0..m).map(|x| (0..=2 * m).map(|d| mk(x).pow(d as u64).inner()).collect::<Vec<u32>>()).collect::<Vec<_>>()) {
        Ok(rows) => t.ev(json!({"ev": "tab", "m": M, "op": "pow", "rows": rows})),
        Err(p) => t.ev(json!({"ev": "tab", "m": M, "op": "pow", "rows": [], "panic": p})),
    }
    let eq: Vec<Vec<bool>> = (0..m).map(|x| (0..m).map(|y| mk(x) == mk(y + m)).collect()).collect();
    t.ev(json!({"ev": "tab", "m": M, "op": "eq", "rows": eq}));
}

fn egcd128(a: i128, b: i128) -> (i128, i128, i128) {
    if b == 0 { (a, 1, 0) } else { let (g, x, y) = egcd128(b, a % b); (g, y, x - (a / b) * y) }
}

fn operand(rng: &mut Rng, m: u64) -> u64 {
    match rng.below(16) {
        0 => 0,
        1 => 1,
        2 => 2 % m,
        3 => m - 1,
        4 => m - 2,
        5 => m / 2,
        6 => (m + 1) / 2,
        // representatives whose PRODUCTS sit at the 2^31 / 2^32 / 2^63 / 2^64 thresholds of narrower arithmetic
        7 | 8 => *rng.pick(&[32767u64, 32768, 32769, 46340, 46341, 46342, 50000, 65535, 65536, 65537, 92681, 92682, 131071, 131072,
                             (1 << 31) - 1, 1 << 31, (1 << 31) + 1, 3_037_000_499, 3_037_000_500, 4_294_967_295]) % m,
        9 => {
            let k = 1 + rng.below(32);
            ((1u64 << k) + rng.below(3)).wrapping_sub(1) % m
        }
        _ => rng.below(m),
    }
}

fn big<const M: u32>(rng: &mut Rng, t: &mut TraceWriter, n: usize) {
    let m = M as u64;
    let mm = M as i128;
    let mk = |x: u64| Modular::<M>::new(x as i64);
    for k in 0..n {
        let x = operand(rng, m);
        let y = operand(rng, m);
        let (mx, my) = (mk(x), mk(y));
        let op = ["add", "add_assign", "sub", "sub_assign", "mul", "mul_assign", "neg", "new", "inv", "div", "div_assign", "pow", "txt", "new_read"][k % 14];
        let mut ev = json!({"ev": "big", "m": bn(m as u128), "op": op, "x": bn(x as u128), "y": bn(y as u128)});
        let exact_q = |v: i128| -> i128 { v.div_euclid(mm) };
        let r: Result<u32, String> = match op {
            "add" => { ev["w_q"] = bi(exact_q(x as i128 + y as i128)); catch(|| (mx + my).inner()) }
            "add_assign" => { ev["w_q"] = bi(exact_q(x as i128 + y as i128)); catch(|| { let mut a = mx; a += my; a.inner() }) }
            "sub" => { ev["w_q"] = bi(exact_q(x as i128 - y as i128)); catch(|| (mx - my).inner()) }
            "sub_assign" => { ev["w_q"] = bi(exact_q(x as i128 - y as i128)); catch(|| { let mut a = mx; a -= my; a.inner() }) }
            "mul" => { ev["w_q"] = bi(exact_q(x as i128 * y as i128)); catch(|| (mx * my).inner()) }
            "mul_assign" => { ev["w_q"] = bi(exact_q(x as i128 * y as i128)); catch(|| { let mut a = mx; a *= my; a.inner() }) }
            "neg" => { ev["w_q"] = bi(exact_q(-(x as i128))); catch(|| (-mx).inner()) }
            "new" | "new_read" => {
                let v: i64 = match rng.below(12) {
                    0 => i64::MIN, 1 => i64::MIN + 1, 2 => i64::MAX, 3 => -(m as i64), 4 => -1, 5 => 0, 6 => m as i64,
                    7 => 1 << 31, 8 => 1 << 32, 9 => -(1 << 31), _ => rng.u64() as i64,
                };
                ev["op"] = json!("new");
                ev["v"] = bi(v as i128);
                ev["w_q"] = bi(exact_q(v as i128));
                if op == "new" {
                    catch(|| Modular::<M>::new(v).inner())
                } else {
                    // through the Readable impl: decimal text -> i64 -> new
                    let text = format!(" {}\n", v).into_bytes();
                    catch(move || Reader::new(Box::new(&text[..])).read::<Modular<M>>().inner())
                }
            }
            "inv" => {
                let (g, s, tt) = egcd128(x as i128, mm);
                if g != 1 { continue; }
                ev["w_s"] = bi(s); ev["w_t"] = bi(tt);
                let r = catch(|| mx.inv().inner());
                if let Ok(res) = r { ev["w_q"] = bi(exact_q(res as i128 * x as i128)); }
                r
            }
            "div" | "div_assign" => {
                let (g, s, tt) = egcd128(y as i128, mm);
                if g != 1 { continue; }
                ev["w_s"] = bi(s); ev["w_t"] = bi(tt);
                let r = if op == "div" { catch(|| (mx / my).inner()) } else { catch(|| { let mut a = mx; a /= my; a.inner() }) };
                if let Ok(res) = r { ev["w_q"] = bi(exact_q(res as i128 * y as i128)); }
                r
            }
            "pow" => {
                let d: u64 = match rng.below(10) { 0 => 0, 1 => 1, 2 => 2, 3 => m - 2, 4 => m - 1, 5 => 1 << 32, 6 => u64::MAX, _ => rng.u64() >> rng.below(64) };
                ev["d"] = bn(d as u128);
                // witness chain computed with 128-bit arithmetic, independent of the crate
                let (mut a, mut r) = (x as u128, 1u128 % m as u128);
                let mut chain = vec![];
                let bits = 64 - d.leading_zeros();
                for i in 0..bits {
                    let bit = d >> i & 1;
                    let (qr, nr) = if bit == 1 { ((r * a) / m as u128, (r * a) % m as u128) } else { (0, r) };
                    let (qa, na) = ((a * a) / m as u128, (a * a) % m as u128);
                    chain.push(json!({"a": bn(na), "r": bn(nr), "qa": bi(qa as i128), "qr": bi(qr as i128)}));
                    a = na;
                    r = nr;
                }
                ev["w_chain"] = json!(chain);
                catch(|| mx.pow(d).inner())
            }
            _ => {
                // renderings
                let data = Rc::new(RefCell::new(Vec::new()));
                let sink = crate::writer::Sink::new(data.clone(), crate::writer::SinkMode::All, 1);
                let r = catch(|| {
                    let mut w = Writer::new(Box::new(sink));
                    w.write(&mx);
                    w.flush();
                    std::mem::forget(w);
                    (format!("{}", mx), format!("{:?}", mx))
                });
                match r {
                    Ok((d, g)) => t.ev(json!({"ev": "txt", "m": bn(m as u128), "res": bn(mx.inner() as u128), "display": d.into_bytes(),
                                              "debug": g.into_bytes(), "written": *data.borrow()})),
                    Err(p) => t.ev(json!({"ev": "big", "m": bn(m as u128), "op": "txt", "panic": p})),
                }
                continue;
            }
        };
        match r {
            Ok(res) => ev["res"] = bn(res as u128),
            Err(p) => ev["panic"] = json!(p),
        }
        t.ev(ev);
    }
}

/// beyond the listed property: Show for Modular<M> (rational reconstruction) for a prime modulus
fn show_tables<const M: u32>(t: &mut TraceWriter) {
    use rlib_show::{Show, ShowSettings};
    for (mx, rat) in [(0i64, true), (1, true), (3, true), (3, false), (6, true), (100, true)] {
        let mut st = ShowSettings::new();
        st.mint_max = mx;
        st.mint_rational = rat;
        let r = catch(|| (0..M as i64).map(|v| json!([v, Modular::<M>::new(v).show(&st).into_bytes()])).collect::<Vec<_>>());
        match r {
            Ok(rows) => t.ev(json!({"ev": "show", "op": "show", "m": M, "max": mx, "rational": rat, "rows": rows})),
            Err(p) => t.ev(json!({"ev": "big", "op": "show", "m": bn(M as u128), "panic": p})),
        }
    }
}

macro_rules! small_moduli {
    ($t:expr, $max:expr, $($m:literal),*) => { $( if $m <= $max { tables::<$m>($t); } )* };
}

pub fn record(seed: u64, tier: &str, out: &str) {
    let thorough = tier == "thorough";
    let mut rng = Rng::new(seed ^ 0xC06);
    let mut t = TraceWriter::create(out);
    let max: u32 = if thorough { 48 } else { 40 };
    small_moduli!(&mut t, max, 2, 3, 4, 5, 6, 7, 8, 9, 10, 11, 12, 13, 14, 15, 16, 17, 18, 19, 20, 21, 22, 23, 24, 25, 26, 27, 28, 29, 30,
                  31, 32, 33, 34, 35, 36, 37, 38, 39, 40, 41, 42, 43, 44, 45, 46, 47, 48);
    show_tables::<5>(&mut t);
    show_tables::<7>(&mut t);
    show_tables::<13>(&mut t);
    show_tables::<31>(&mut t);
    if thorough {
        show_tables::<101>(&mut t);
        show_tables::<251>(&mut t);
    }
    let tabs = t.events;
    let n = if thorough { 40_000 } else { 2500 };
    big::<998244353>(&mut rng, &mut t, n);
    big::<1000000007>(&mut rng, &mut t, n);
    big::<2147483647>(&mut rng, &mut t, n); // 2^31 - 1 (prime)
    big::<2147483646>(&mut rng, &mut t, n); // 2^31 - 2 (composite)
    big::<2147483629>(&mut rng, &mut t, n); // 2^31 - 19 (prime)
    big::<1073741827>(&mut rng, &mut t, n); // 2^30 + 3 (prime)
    big::<1073741824>(&mut rng, &mut t, n); // 2^30
    big::<223092870>(&mut rng, &mut t, n);  // 2*3*5*7*11*13*17*19*23
    let ev = t.finish();
    println!("{}", json!({"events": ev, "runs": 1, "small_moduli_up_to": max, "table_events": tabs, "big_events": ev - tabs}));
}
