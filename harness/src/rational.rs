//! C07 — rlib_rational::Rational<T>.  record: the exhaustive box of small fractions for i32, i64, i128 (all operator
//! forms) and sampled large operands with witnesses, for RationalTrace.tla.
use crate::util::*;
use rlib_rational::Rational;
use serde_json::{json, Value};
use std::collections::hash_map::DefaultHasher;
use std::hash::{Hash, Hasher};

fn bi(v: i128) -> Value {
    let (neg, mag) = signed_limbs(v);
    json!({"neg": neg, "mag": mag})
}

fn egcd128(a: i128, b: i128) -> (i128, i128, i128) {
    if b == 0 {
        if a < 0 { (-a, -1, 0) } else { (a, 1, 0) }
    } else {
        let (g, x, y) = egcd128(b, a % b);
        (g, y, x - (a / b) * y)
    }
}

fn h<T: Hash>(x: &T) -> u64 {
    let mut s = DefaultHasher::new();
    x.hash(&mut s);
    s.finish()
}

macro_rules! box_for {
    ($t:ty, $tw:expr, $name:expr, $k:expr) => {{
        let k: i64 = $k;
        let p = |r: Rational<$t>| json!([r.a as i64, r.b as i64]);
        for a in -k..=k {
            for b in (-k..=k).filter(|&b| b != 0) {
                let res = catch(|| {
                    let mut rows = vec![];
                    for c in -k..=k {
                        for d in (-k..=k).filter(|&d| d != 0) {
                            let x = Rational::<$t>::new(a as $t, b as $t);
                            let y = Rational::<$t>::new(c as $t, d as $t);
                            // by value (Copy types), by reference, assigning
                            let add3 = [p(x + y), p(x + &y), p({ let mut z = x; z += y; z })];
                            let sub3 = [p(x - y), p(x - &y), p({ let mut z = x; z -= &y; z })];
                            let mul3 = [p(x * y), p(x * &y), p({ let mut z = x; z *= y; z })];
                            let div3 = if c != 0 { json!([p(x / y), p(x / &y), p({ let mut z = x; z /= &y; z })]) } else { json!([]) };
                            let ord = match x.cmp(&y) { std::cmp::Ordering::Less => -1, std::cmp::Ordering::Equal => 0, _ => 1 };
                            let pc = x.partial_cmp(&y) == Some(x.cmp(&y));
                            rows.push(json!([a, b, c, d, p(x), p(y), add3, sub3, mul3, div3, ord, x == y, h(&x) == h(&y), x < y && pc, x <= y]));
                        }
                    }
                    rows
                });
                match res {
                    Ok(rows) => $tw.ev(json!({"ev": "box", "op": "binary", "ty": $name, "k": k, "rows": rows})),
                    Err(pn) => $tw.ev(json!({"ev": "box", "op": "binary", "ty": $name, "a": a, "b": b, "panic": pn})),
                }
            }
        }
        let res = catch(|| {
            let mut rows = vec![];
            for a in -3 * k..=3 * k {
                for b in (-k..=k).filter(|&b| b != 0) {
                    let x = Rational::<$t>::new(a as $t, b as $t);
                    rows.push(json!([a, b, p(x), p(-x), p(x.floor()), p(x.ceil())]));
                }
            }
            rows
        });
        match res {
            Ok(rows) => $tw.ev(json!({"ev": "unary", "op": "unary", "ty": $name, "k": k, "rows": rows})),
            Err(pn) => $tw.ev(json!({"ev": "unary", "op": "unary", "ty": $name, "panic": pn})),
        }
    }};
}

fn biased(rng: &mut Rng, bits: u32) -> i128 {
    let v = match rng.below(10) {
        0 => 0,
        1 => 1,
        2 => (1i128 << bits) - 1,
        3 => 1i128 << rng.below(bits as u64),
        4 => (1i128 << rng.below(bits as u64)) - 1,
        _ => (rng.u64() as i128 & ((1i128 << 62) - 1)) >> (62 - 1 - rng.below(bits as u64).min(61) as u32),
    };
    let v = v.min((1i128 << bits) - 1);
    if rng.chance(1, 2) { -v } else { v }
}

macro_rules! big_for {
    ($t:ty, $tw:expr, $name:expr, $bits:expr, $n:expr, $rng:expr) => {{
        let rj = |r: &Rational<$t>| json!({"n": bi(r.a as i128), "d": bi(r.b as i128)});
        for k in 0..$n {
            let rng: &mut Rng = $rng;
            let mut a = biased(rng, $bits);
            let mut b = biased(rng, $bits);
            let mut c = biased(rng, $bits);
            let mut d = biased(rng, $bits);
            if rng.chance(1, 3) {
                // shared factors across the two fractions
                let f = 1 + rng.below(1 << ($bits / 2)) as i128;
                b = (b / f) * f;
                d = (d / f) * f;
            }
            if b == 0 { b = 1; }
            if d == 0 { d = -1; }
            if rng.chance(1, 10) { a = 0; }
            if rng.chance(1, 10) { c = b; }
            let ops = ["add", "add_ref", "add_assign", "sub", "sub_ref", "sub_assign", "mul", "mul_ref", "mul_assign",
                       "div", "div_ref", "div_assign", "new", "neg", "floor", "ceil", "cmp"];
            let op = ops[k % ops.len()];
            if op.starts_with("div") && c == 0 { continue; }
            let made = catch(|| (Rational::<$t>::new(a as $t, b as $t), Rational::<$t>::new(c as $t, d as $t)));
            let (x, y) = match made { Ok(v) => v, Err(p) => { $tw.ev(json!({"ev": "big", "op": "new", "ty": $name, "panic": p})); continue; } };
            let mut ev = json!({"ev": "big", "op": op, "ty": $name, "x": rj(&x), "y": rj(&y)});
            if op == "new" {
                ev["x"] = json!({"n": bi(a), "d": bi(b)});
            }
            let r: Result<Option<Rational<$t>>, String> = catch(|| Some(match op {
                "add" => x + y, "add_ref" => x + &y, "add_assign" => { let mut z = x; z += &y; z }
                "sub" => x - y, "sub_ref" => x - &y, "sub_assign" => { let mut z = x; z -= y; z }
                "mul" => x * y, "mul_ref" => x * &y, "mul_assign" => { let mut z = x; z *= &y; z }
                "div" => x / y, "div_ref" => x / &y, "div_assign" => { let mut z = x; z /= y; z }
                "new" => x, "neg" => -x, "floor" => x.floor(), "ceil" => x.ceil(),
                _ => return None,
            }));
            match r {
                Err(p) => ev["panic"] = json!(p),
                Ok(Some(z)) => {
                    ev["z"] = rj(&z);
                    let (_, s, t) = egcd128(z.a as i128, z.b as i128);
                    ev["w_s"] = bi(s);
                    ev["w_t"] = bi(t);
                }
                Ok(None) => {
                    let ord = match x.cmp(&y) { std::cmp::Ordering::Less => -1, std::cmp::Ordering::Equal => 0, _ => 1 };
                    ev["z"] = rj(&x);
                    ev["w_s"] = bi(0);
                    ev["w_t"] = bi(0);
                    ev["cmp"] = json!(ord);
                    ev["eq"] = json!(x == y);
                    ev["hasheq"] = json!(h(&x) == h(&y));
                }
            }
            $tw.ev(ev);
        }
    }};
}

pub fn record(seed: u64, tier: &str, out: &str) {
    let thorough = tier == "thorough";
    let mut rng = Rng::new(seed ^ 0xC07);
    let mut t = TraceWriter::create(out);
    let k = if thorough { 8 } else { 5 };
    box_for!(i64, t, "i64", k);
    box_for!(i32, t, "i32", if thorough { 6 } else { 3 });
    box_for!(i128, t, "i128", if thorough { 6 } else { 3 });
    let tabs = t.events;
    let n = if thorough { 250_000 } else { 20_000 };
    big_for!(i64, t, "i64", 30, n, &mut rng);
    big_for!(i32, t, "i32", 14, n / 3, &mut rng);
    big_for!(i128, t, "i128", 60, n / 3, &mut rng);
    let ev = t.finish();
    println!("{}", json!({"events": ev, "runs": 1, "table_events": tabs, "big_events": ev - tabs}));
}
