//! C13 — rlib_sieve::Sieve.  record: complete tables for every limit N up to a few thousand, factorisations, and
//! samples at N = 1e6 / 1e7, for SieveTrace.tla.
use crate::util::*;
use rlib_sieve::Sieve;
use serde_json::{json, Value};

fn fact(s: &Sieve, n: i32) -> Value {
    json!(s.factorize(n).map(|(p, c)| json!([p, c])).collect::<Vec<_>>())
}

pub fn record(seed: u64, tier: &str, out: &str) {
    let thorough = tier == "thorough";
    let mut rng = Rng::new(seed ^ 0xC13);
    let mut t = TraceWriter::create(out);
    let max_n: usize = if thorough { 4000 } else { 2000 };
    let mut entries = 0u64;
    for n in 0..=max_n {
        let r = catch(|| {
            let s = Sieve::new(n);
            let mnp: Vec<i32> = (0..=n as i32).map(|i| s.min_prime(i)).collect();
            let isp: Vec<bool> = (0..=n as i32).map(|i| s.is_prime(i)).collect();
            (mnp, isp, s.primes().clone())
        });
        match r {
            Ok((mnp, isp, primes)) => {
                entries += 2 * (n as u64 + 1) + primes.len() as u64;
                t.ev(json!({"ev": "sieve", "N": n, "mnp": mnp, "isp": isp, "primes": primes}));
            }
            Err(p) => t.ev(json!({"ev": "sieve", "N": n, "panic": p})),
        }
        // factorisations through the real iterator: all n for some limits, the top of the range for every limit
        if n >= 1 {
            let from = if n % 97 == 0 || n == max_n { 1 } else { n.saturating_sub(2).max(1) };
            let r = catch(|| {
                let s = Sieve::new(n);
                (from..=n).map(|x| fact(&s, x as i32)).collect::<Vec<_>>()
            });
            match r {
                Ok(rows) => {
                    entries += rows.len() as u64;
                    t.ev(json!({"ev": "fact", "N": n, "from": from, "rows": rows}));
                }
                Err(p) => t.ev(json!({"ev": "fact", "N": n, "panic": p})),
            }
        }
    }
    // the factorisation consumed through the other entry points of the Iterator trait (last / count / nth / skip / step_by)
    {
        let s = Sieve::new(max_n);
        let rows: Result<Vec<Value>, String> = catch(|| (1..=max_n as i32).map(|x| {
            let pc = |o: Option<(i32, i32)>| -> Value { match o { None => json!([]), Some((p, c)) => json!([[p, c]]) } };
            let mut it = s.factorize(x);
            it.next();
            let after_one_nth1 = pc(it.nth(1));
            json!([x, fact(&s, x), pc(s.factorize(x).last()), s.factorize(x).count(), pc(s.factorize(x).nth(1)), after_one_nth1,
                   s.factorize(x).skip(1).map(|(p, c)| json!([p, c])).collect::<Vec<_>>(), s.factorize(x).step_by(2).map(|(p, c)| json!([p, c])).collect::<Vec<_>>()])
        }).collect());
        match rows {
            Ok(rows) => {
                for ch in rows.chunks(500) {
                    t.ev(json!({"ev": "factit", "N": max_n, "rows": ch}));
                }
            }
            Err(p) => t.ev(json!({"ev": "factit", "N": max_n, "panic": p})),
        }
    }
    // limits between the exhaustive range and the large ones, at a fixed stride (every position class of N relative
    // to bounds that are only asymptotically valid shows up somewhere): sampled entries, the end of the prime list
    let stride = if thorough { 7 } else { 61 };
    let mut n = max_n + 1;
    while n <= 140_000 {
        match catch(|| Sieve::new(n)) {
            Err(p) => t.ev(json!({"ev": "bigsample", "N": n, "panic": p})),
            Ok(s) => {
                let mut picks: Vec<i32> = (0..5).map(|k| (n - k) as i32).collect();
                for _ in 0..5 {
                    picks.push(2 + rng.below(n as u64 - 1) as i32);
                }
                match catch(|| picks.iter().map(|&x| json!([x, s.min_prime(x), s.is_prime(x), fact(&s, x)])).collect::<Vec<Value>>()) {
                    Ok(rows) => {
                        entries += rows.len() as u64;
                        t.ev(json!({"ev": "bigsample", "N": n, "rows": rows}));
                    }
                    Err(p) => t.ev(json!({"ev": "bigsample", "N": n, "panic": p})),
                }
                let primes = s.primes();
                let k = primes.len();
                let pairs: Vec<Value> = [k - 2, rng.usize(k - 1)].iter().map(|&i| json!([i, primes[i], primes[i + 1]])).collect();
                t.ev(json!({"ev": "bigprimes", "N": n, "len": k, "pairs": pairs, "last": primes[k - 1]}));
            }
        }
        n += stride;
    }
    // large limits
    let bigs: &[usize] = if thorough { &[1_000_000, 2_000_000, 10_000_000] } else { &[1_000_000, 2_000_000] };
    for &n in bigs {
        let r = catch(|| Sieve::new(n));
        let s = match r {
            Ok(s) => s,
            Err(p) => {
                t.ev(json!({"ev": "bigsample", "N": n, "panic": p}));
                continue;
            }
        };
        let primes = s.primes().clone();
        let mut picks: Vec<i32> = vec![0, 1, 2, 3, 4];
        picks.extend((0..100).map(|k| (n - k) as i32)); // the last 100 entries
        for _ in 0..(if thorough { 6000 } else { 2500 }) {
            picks.push(match rng.below(6) {
                0 => *rng.pick(&primes),
                1 => {
                    // prime squares and their neighbours
                    // (any prime up to sqrt(N), the largest ones most often: p^2 and p^3 sit at the i32 boundaries there)
                    let upto = primes.partition_point(|&q| (q as i64) * (q as i64) <= n as i64).max(1);
                    let p = if rng.chance(1, 2) { primes[upto - 1 - rng.usize(upto.min(40))] } else { *rng.pick(&primes[..upto]) } as i64;
                    let sq = p * p;
                    // the square itself, its neighbours, and the square times a small cofactor
                    let v = match rng.below(5) { 0 => sq - 1, 1 => sq + 1, 2 => sq * (2 + rng.below(4) as i64), _ => sq };
                    (if v <= n as i64 { v } else { sq }).max(2) as i32
                }
                2 => {
                    // product of two large primes
                    let lim = (n as f64).sqrt() as i32;
                    let small: Vec<i32> = primes.iter().cloned().filter(|&p| p <= lim && p > lim / 2).collect();
                    let (a, b) = (*rng.pick(&small) as i64, *rng.pick(&small) as i64);
                    (a * b).min(n as i64) as i32
                }
                3 => *rng.pick(&primes) + 1,
                _ => 2 + rng.below(n as u64 - 1) as i32,
            });
        }
        for ch in picks.chunks(500) {
            match catch(|| ch.iter().map(|&x| json!([x, s.min_prime(x), s.is_prime(x), if x >= 1 { fact(&s, x) } else { json!([]) }])).collect::<Vec<Value>>()) {
                Ok(rows) => {
                    entries += rows.len() as u64;
                    t.ev(json!({"ev": "bigsample", "N": n, "rows": rows}));
                }
                Err(p) => t.ev(json!({"ev": "bigsample", "N": n, "panic": p})),
            }
        }
        let pairs: Vec<Value> = (0..if thorough { 1500 } else { 500 })
            .map(|k| {
                let i = if k < 50 { k } else if k < 100 { primes.len() - 2 - (k - 50) } else { rng.usize(primes.len() - 1) };
                json!([i, primes[i], primes[i + 1]])
            })
            .collect();
        t.ev(json!({"ev": "bigprimes", "N": n, "len": primes.len(), "pairs": pairs}));
    }
    let ev = t.finish();
    println!("{}", json!({"events": ev, "runs": max_n + 1, "table_entries": entries, "nontrivial": entries}));
}
