//! C05 — rlib_dsu::DSU.  replay: TLC-emitted (A)+(B) states; record: traces for DsuTrace.tla.
use crate::util::*;
use rlib_dsu::DSU;
use serde_json::{json, Value};

fn chain_len(p: &[usize], mut v: usize) -> usize {
    let mut d = 0;
    while p[v] != v {
        v = p[v];
        d += 1;
    }
    d
}

fn root_of(p: &[usize], mut v: usize) -> usize {
    while p[v] != v {
        v = p[v];
    }
    v
}

/// Replays the history; returns the object and the representatives the *real* code has shown since the
/// last union/reset (the model's own choice of root is not binding for the implementation).
fn apply_hist(hist: &[Value], verdict: &mut Verdict, case: &Value) -> Option<(DSU, Vec<(usize, usize)>)> {
    let mut d: Option<DSU> = None;
    let mut shown: Vec<(usize, usize)> = vec![];
    for (k, op) in hist.iter().enumerate() {
        let a = getu(op, "a");
        let b = getu(op, "b");
        let r = geti(op, "r");
        let name = gets(op, "op");
        let res = catch(|| match name {
            "new" => {
                d = Some(DSU::new(a));
                None
            }
            "reset" => {
                d.as_mut().unwrap().reset(a);
                None
            }
            "un" => Some(d.as_mut().unwrap().un(a, b) as i64),
            "check" => Some(d.as_mut().unwrap().check(a, b) as i64),
            "size" => Some(d.as_mut().unwrap().size(a) as i64),
            "par" => {
                let r = d.as_mut().unwrap().par(a);
                shown.push((a, r));
                None
            }
            "clone" => {
                let c = d.as_ref().unwrap().clone();
                d = Some(c);
                None
            }
            _ => panic!("harness: unknown op {}", name),
        });
        verdict.checks += 1;
        if name == "un" || name == "reset" || name == "new" {
            shown.clear();
        }
        match res {
            Err(msg) => {
                verdict.mismatch(&format!("dsu.{}: panic", name), json!({"case": case, "step": k, "panic": msg}));
                return None;
            }
            Ok(Some(got)) if got != r => {
                verdict.mismatch(&format!("dsu.{}: wrong result", name), json!({"case": case, "step": k, "want": r, "got": got}));
            }
            _ => {}
        }
    }
    d.map(|d| (d, shown))
}

pub fn replay(cases_path: &str, out: &str) {
    let mut v = Verdict::new();
    let mut drift = 0u64;
    let mut maxdepth_seen = 0usize;
    let mut nontrivial = 0u64;
    for_each_case(cases_path, |case| {
        v.cases += 1;
        let hist = arr(&case, "hist").clone();
        let n = getu(&case, "n");
        let comp: Vec<usize> = arr(&case, "comp").iter().map(|x| x.as_u64().unwrap() as usize).collect();
        let size: Vec<usize> = arr(&case, "size").iter().map(|x| x.as_u64().unwrap() as usize).collect();
        let (base, shown_before) = match apply_hist(&hist, &mut v, &case) {
            Some(d) => d,
            None => return,
        };
        let mut rep: Vec<i64> = vec![-1; n];
        for &(a, r) in &shown_before {
            if a < n {
                rep[comp[a]] = r as i64;
            }
        }
        if size.iter().any(|&s| s >= 2) {
            nontrivial += 1;
        }
        if v.cases <= 2 || v.cases % 997 == 0 {
            v.sample(case.clone());
        }
        let bad = |v: &mut Verdict, what: &str, q: Value, want: Value, got: Value| {
            v.mismatch(&format!("dsu.{}: wrong result", what), json!({"case": case, "query": q, "want": want, "got": got}));
        };
        // forest depth through the hook: 2^depth(v) <= |component(v)| as demanded by (A)'s sizes
        {
            let p = base.verif_parents();
            let mut md = 0;
            for x in 0..n {
                let dpt = chain_len(p, x);
                md = md.max(dpt);
                v.checks += 1;
                if dpt >= 31 || (1usize << dpt) > size[x] {
                    bad(&mut v, "depth", json!({"v": x}), json!({"max_depth_log2_of": size[x]}), json!(dpt));
                }
            }
            maxdepth_seen = maxdepth_seen.max(md);
            if md as i64 != geti(&case, "bdepth") {
                drift += 1;
            }
        }
        // every enabled query, each on its own copy of the state (queries compress paths)
        for a in 0..n {
            // alternately a clone and a clone_from into an object with another history (both are copies of the state)
            let mut d = if a % 2 == 0 { base.clone() } else {
                let mut o = DSU::new(n + 2);
                o.un(0, n + 1);
                o.clone_from(&base);
                o
            };
            let got = catch(|| d.size(a));
            v.checks += 1;
            if got != Ok(size[a]) {
                bad(&mut v, "size", json!({"v": a}), json!(size[a]), json!(format!("{:?}", got)));
            }
            for b in 0..n {
                let mut d = base.clone();
                let got = catch(|| d.check(a, b));
                v.checks += 1;
                if got != Ok(comp[a] == comp[b]) {
                    bad(&mut v, "check", json!({"u": a, "v": b}), json!(comp[a] == comp[b]), json!(format!("{:?}", got)));
                }
                let mut d = base.clone();
                let got = catch(|| d.un(a, b));
                v.checks += 1;
                if got != Ok(comp[a] != comp[b]) {
                    bad(&mut v, "un", json!({"u": a, "v": b}), json!(comp[a] != comp[b]), json!(format!("{:?}", got)));
                }
            }
        }
        // representatives: members, equal within a component, equal to the one already shown
        let mut d = base.clone();
        let mut shown: Vec<Option<usize>> = vec![None; n];
        for a in 0..n {
            v.checks += 1;
            match catch(|| d.par(a)) {
                Err(m) => bad(&mut v, "par", json!({"v": a}), json!("a member"), json!(m)),
                Ok(r) => {
                    let c = comp[a];
                    let ok_member = r < n && comp[r] == c;
                    let ok_same = shown[c].map_or(true, |s| s == r);
                    let ok_prev = rep[c] < 0 || rep[c] as usize == r;
                    if !(ok_member && ok_same && ok_prev) {
                        bad(&mut v, "par", json!({"v": a}), json!({"component": c, "shown_before": rep[c], "shown_now": shown[c]}), json!(r));
                    }
                    shown[c] = Some(r);
                }
            }
        }
    });
    v.extra.insert("model_drift_states".into(), json!(drift));
    v.extra.insert("max_depth_seen".into(), json!(maxdepth_seen));
    v.extra.insert("nontrivial_states".into(), json!(nontrivial));
    v.write(out);
}

struct Rec {
    t: TraceWriter,
    d: DSU,
    n: usize,
    runs: u64,
}

impl Rec {
    fn reset(&mut self, n: usize, fresh: bool) {
        if fresh {
            self.d = DSU::new(n);
        } else {
            self.d.reset(n);
        }
        self.n = n;
        self.runs += 1;
        self.t.ev(json!({"ev": "reset", "n": n}));
    }
    fn un(&mut self, u: usize, v: usize) {
        let r = self.d.un(u, v);
        self.t.ev(json!({"ev": "un", "u": u, "v": v, "res": r}));
    }
    fn par(&mut self, v: usize) {
        let r = self.d.par(v);
        self.t.ev(json!({"ev": "par", "v": v, "res": r}));
    }
    fn check(&mut self, u: usize, v: usize) {
        let r = self.d.check(u, v);
        self.t.ev(json!({"ev": "check", "u": u, "v": v, "res": r}));
    }
    fn size(&mut self, v: usize) {
        let r = self.d.size(v);
        self.t.ev(json!({"ev": "size", "v": v, "res": r}));
    }
    fn deepest(&mut self) {
        let p = self.d.verif_parents();
        let (mut bv, mut bd) = (0, 0);
        for v in 0..self.n {
            let d = chain_len(p, v);
            if d > bd {
                bd = d;
                bv = v;
            }
        }
        self.t.ev(json!({"ev": "depth", "v": bv, "d": bd}));
    }
    fn random_ops(&mut self, rng: &mut Rng, k: usize) {
        for _ in 0..k {
            let n = self.n;
            match rng.below(100) {
                0..=44 => self.un(rng.usize(n), rng.usize(n)),
                45..=59 => self.par(rng.usize(n)),
                60..=74 => self.check(rng.usize(n), rng.usize(n)),
                75..=89 => self.size(rng.usize(n)),
                90..=93 => self.deepest(),
                94 => {
                    self.d = self.d.clone();
                    self.t.ev(json!({"ev": "clone"}));
                }
                95 => {
                    let mut o = DSU::new(2);
                    o.un(0, 1);
                    o.clone_from(&self.d);
                    self.d = o;
                    self.t.ev(json!({"ev": "clone"}));
                }
                _ => {
                    // locality: union neighbours so that components actually grow
                    let a = rng.usize(n);
                    self.un(a, (a + 1) % n);
                }
            }
        }
    }
}

/// Adversarial union orders on roots only (no path compression interferes): binomial trees.
fn binomial(r: &mut Rec, order_uv: bool) {
    let n = r.n;
    let mut step = 1;
    while step < n {
        let mut i = 0;
        while i + step < n {
            // roots of the two blocks: found without compression through the hook
            let (a, b) = {
                let p = r.d.verif_parents();
                (root_of(p, i), root_of(p, i + step))
            };
            if order_uv {
                r.un(a, b)
            } else {
                r.un(b, a)
            }
            i += 2 * step;
        }
        r.deepest();
        step *= 2;
    }
}

pub fn record(seed: u64, tier: &str, out: &str) {
    let thorough = tier == "thorough";
    let mut rng = Rng::new(seed ^ 0xD5);
    let mut r = Rec { t: TraceWriter::create(out), d: DSU::new(1), n: 1, runs: 0 };
    // (i) random histories on small and medium universes, with resets (grow and shrink) and clones
    let rounds = if thorough { 60 } else { 12 };
    for round in 0..rounds {
        let n = match round % 6 {
            0 => 1 + rng.usize(6),
            1 => 7 + rng.usize(30),
            2 => 64,
            3 => 100 + rng.usize(200),
            4 => 2 + rng.usize(3),
            _ => 33,
        };
        r.reset(n, round % 3 == 0);
        let k = if thorough { 1500 } else { 400 };
        r.random_ops(&mut rng, k);
    }
    // (ii) adversarial orders, fully validated
    for &n in if thorough { &[64usize, 257, 1024][..] } else { &[64usize, 257][..] } {
        for order in [true, false] {
            r.reset(n, false);
            binomial(&mut r, order);
            for v in 0..n.min(40) {
                r.size(v);
                r.par(v);
            }
        }
        // chains: always attach a singleton to the growing component, both argument orders
        for order in [true, false] {
            r.reset(n, false);
            for i in 1..n {
                if order {
                    r.un(i - 1, i)
                } else {
                    r.un(i, i - 1)
                }
            }
            r.deepest();
            r.size(0);
        }
    }
    // (ii-b) restoring a snapshot into an object of the SAME size whose own history went elsewhere: small universes and
    // few unions, so that the two objects often agree in their size arrays while their partitions differ
    for k in 0..(if thorough { 6000 } else { 1200 }) {
        let n = 3 + rng.usize(4);
        let steps = 1 + rng.usize(3);
        r.reset(n, true);
        for _ in 0..steps {
            r.un(rng.usize(n), rng.usize(n));
        }
        // the other object: same size, its own unions, then it takes over r's state through clone_from
        let mut o = DSU::new(n);
        for _ in 0..(if k % 3 == 0 { steps } else { 1 + rng.usize(3) }) {
            o.un(rng.usize(n), rng.usize(n));
        }
        o.clone_from(&r.d);
        r.d = o;
        r.t.ev(json!({"ev": "clone"}));
        for u in 0..n {
            r.size(u);
            for v in (u + 1)..n {
                r.check(u, v);
            }
        }
    }
    // (iii) big universes: only checkpoints are logged; component size counted by walking parents
    let bigs: &[usize] = if thorough { &[10_000, 100_000, 1 << 17, 1_000_000, (1 << 20) + 1] } else { &[10_000, 100_000, (1 << 17) + 3] };
    for &n in bigs {
        for mode in 0..4 {
            let mut d = DSU::new(n);
            match mode {
                0 | 1 => {
                    let mut step = 1;
                    while step < n {
                        let mut i = 0;
                        while i + step < n {
                            let (a, b) = {
                                let p = d.verif_parents();
                                (root_of(p, i), root_of(p, i + step))
                            };
                            if mode == 0 {
                                d.un(a, b);
                            } else {
                                d.un(b, a);
                            }
                            i += 2 * step;
                        }
                        step *= 2;
                    }
                }
                2 => {
                    for i in 1..n {
                        d.un(i, i - 1);
                    }
                }
                _ => {
                    for _ in 0..n {
                        let (a, b) = (rng.usize(n), rng.usize(n));
                        d.un(a, b);
                    }
                }
            }
            let p = d.verif_parents();
            let (mut bv, mut bd) = (0, 0);
            // depth of every node in O(n) with memoisation
            let mut depth = vec![usize::MAX; n];
            for v in 0..n {
                let mut path = vec![];
                let mut x = v;
                while depth[x] == usize::MAX && p[x] != x {
                    path.push(x);
                    x = p[x];
                }
                let mut dd = if p[x] == x { 0 } else { depth[x] };
                if p[x] == x {
                    depth[x] = 0;
                }
                for &y in path.iter().rev() {
                    dd += 1;
                    depth[y] = dd;
                }
                if depth[v] > bd {
                    bd = depth[v];
                    bv = v;
                }
            }
            let rt = root_of(p, bv);
            let mut cs = 0usize;
            // count members by root (memoised roots)
            let mut root = vec![usize::MAX; n];
            for v in 0..n {
                let mut path = vec![];
                let mut x = v;
                while root[x] == usize::MAX && p[x] != x {
                    path.push(x);
                    x = p[x];
                }
                let rr = if p[x] == x { x } else { root[x] };
                root[x] = rr;
                for &y in &path {
                    root[y] = rr;
                }
                if rr == rt {
                    cs += 1;
                }
            }
            r.runs += 1;
            r.t.ev(json!({"ev": "ckpt", "n": n, "d": bd, "cs": cs, "mode": mode}));
            // queries on the big forest, deepest element first (before any lookup has compressed its path): for the
            // binomial and chain orders the specification knows the partition (one class of n elements)
            if mode <= 2 {
                let probes: Vec<usize> = vec![bv, 0, n - 1, n / 2, rng.usize(n), bv];
                let rows: Vec<Value> = probes.iter().map(|&v| {
                    let w = rng.usize(n);
                    let sz = d.size(v);
                    let chk = d.check(v, w);
                    let same = d.par(v) == d.par(w);
                    json!([v, w, sz, chk, same])
                }).collect();
                // a restored snapshot answers the same (Clone::clone_from, the buffer-reusing form)
                let mut e = DSU::new(3);
                e.clone_from(&d);
                let rows2: Vec<Value> = probes.iter().map(|&v| {
                    let w = rng.usize(n);
                    json!([v, w, e.size(v), e.check(v, w), e.par(v) == e.par(w)])
                }).collect();
                r.t.ev(json!({"ev": "bigq", "n": n, "pattern": if mode == 2 { "chain" } else { "binomial" }, "rows": rows, "rows_clone_from": rows2}));
            }
        }
    }
    let ev = r.t.finish();
    println!("{}", json!({"events": ev, "runs": r.runs}));
}
