//! C19 — rlib_tensor::Tensor<T, D>.  replay: TLC-emitted shapes (every valid index, every single-dimension
//! out-of-range index, constructor rejections, rendering, same-count shapes); record: IO round trips.
use crate::util::*;
use crate::writer::{Sink, SinkMode};
use rlib_io::{Reader, Writer};
use rlib_tensor::Tensor;
use serde_json::{json, Value};
use std::cell::RefCell;
use std::rc::Rc;

fn us(v: &Value) -> Vec<usize> {
    v.as_array().unwrap().iter().map(|x| x.as_u64().unwrap() as usize).collect()
}
fn arr_d<const D: usize>(v: &[usize]) -> [usize; D] {
    let mut a = [0usize; D];
    a.copy_from_slice(v);
    a
}

fn write_bytes<const D: usize>(t: &Tensor<i64, D>) -> Vec<u8> {
    let data = Rc::new(RefCell::new(Vec::new()));
    let sink = Sink::new(data.clone(), SinkMode::All, 1);
    let mut w = Writer::new(Box::new(sink));
    w.write(t);
    w.flush();
    std::mem::forget(w);
    let out = data.borrow().clone();
    out
}

fn replay_rank<const D: usize>(case: &Value, v: &mut Verdict) {
    let dims: [usize; D] = arr_d(&us(&case["dims"]));
    let data: Vec<i64> = arr(case, "data").iter().map(|x| x.as_i64().unwrap()).collect();
    let ctx = |extra: Value| json!({"case": case, "dims": case["dims"], "what": extra});
    // three constructors + element-wise writes must agree on every valid index
    let built = catch(|| {
        let a = Tensor::<i64, D>::from_vec(dims, data.clone());
        let b = Tensor::<i64, D>::from_slice(dims, &data);
        let mut c = Tensor::<i64, D>::new(dims, -1);
        for it in arr(case, "valid") {
            let idx: [usize; D] = arr_d(&us(&it["idx"]));
            c[idx] = data[getu(it, "off")];
        }
        (a, b, c)
    });
    let (a, b, c) = match built {
        Ok(x) => x,
        Err(m) => {
            v.mismatch("tensor: panic while constructing / writing a valid shape", ctx(json!({"panic": m})));
            return;
        }
    };
    for (name, t) in [("from_vec", &a), ("from_slice", &b), ("new + index_mut", &c)] {
        for it in arr(case, "valid") {
            let idx: [usize; D] = arr_d(&us(&it["idx"]));
            let off = getu(it, "off");
            v.checks += 1;
            match catch(|| (t[idx], t.get_index(idx))) {
                Ok((val, gi)) if val == data[off] && gi == off => {}
                Ok((val, gi)) => v.mismatch("tensor.index: valid index does not address the row-major element",
                                            ctx(json!({"ctor": name, "idx": it["idx"], "got": val, "get_index": gi, "want": data[off], "want_offset": off}))),
                Err(m) => v.mismatch("tensor.index: valid index panics", ctx(json!({"ctor": name, "idx": it["idx"], "panic": m}))),
            }
        }
        v.checks += 1;
        if t.iter().cloned().collect::<Vec<_>>() != data || t.dims() != &dims {
            v.mismatch("tensor.iter: iteration order / dims differ from the row-major data", ctx(json!({"ctor": name})));
        }
    }
    // an index out of range in exactly one dimension must be rejected, never alias another element
    for it in arr(case, "oob") {
        let idx: [usize; D] = arr_d(&us(&it["idx"]));
        let aliases = it["aliases"].as_bool().unwrap();
        v.checks += 2;
        let mut c2 = a.clone();
        let r1 = catch(|| a[idx]);
        let r2 = catch(move || {
            c2[idx] = 5;
        });
        if let Ok(val) = r1 {
            v.mismatch("tensor.index: out-of-range index accepted", ctx(json!({"idx": it["idx"], "returned": val, "offset_inside_storage": aliases})));
        }
        if r2.is_ok() {
            v.mismatch("tensor.index_mut: out-of-range index accepted", ctx(json!({"idx": it["idx"], "offset_inside_storage": aliases})));
        }
    }
    // the same for components far beyond the extent (what `j - 1` gives at j = 0 without overflow checks, and values
    // whose product with the stride wraps around 2^64 back into the storage): out of range in that dimension
    for d in 0..D {
        let stride: u128 = dims[d + 1..].iter().map(|&x| x as u128).product();
        let mut huge: Vec<usize> = vec![usize::MAX, usize::MAX - 1, 1 << 63, (1usize << 63) + dims[d], (1usize << 63) - 1 + dims[d], 1 << 62, 1 << 32, (1 << 32) + 1];
        for off in 0..3u128 {
            // smallest H with stride * H >= 2^64 + off: the product wraps to a small offset
            let h = ((1u128 << 64) + off + stride - 1) / stride;
            if h <= usize::MAX as u128 && h >= dims[d] as u128 {
                huge.push(h as usize);
            }
        }
        for base in [[0usize; D], { let mut b = dims; for x in b.iter_mut() { *x -= 1; } b }] {
            for &hv in &huge {
                let mut idx = base;
                idx[d] = hv;
                v.checks += 2;
                let mut c2 = a.clone();
                let r1 = catch(|| a[idx]);
                let r2 = catch(move || {
                    c2[idx] = 5;
                });
                if let Ok(val) = r1 {
                    v.mismatch("tensor.index: out-of-range index accepted", ctx(json!({"idx": idx.iter().map(|x| x.to_string()).collect::<Vec<_>>(), "returned": val, "far_out_of_range": true})));
                }
                if r2.is_ok() {
                    v.mismatch("tensor.index_mut: out-of-range index accepted", ctx(json!({"idx": idx.iter().map(|x| x.to_string()).collect::<Vec<_>>(), "far_out_of_range": true})));
                }
            }
        }
    }
    // constructors reject zero extents and a data length that does not match
    for z in arr(case, "zero") {
        let zd: [usize; D] = arr_d(&us(z));
        v.checks += 4;
        let bad = [
            ("from_vec", catch(|| { Tensor::<i64, D>::from_vec(zd, vec![]); }).is_ok()),
            ("from_slice", catch(|| { Tensor::<i64, D>::from_slice(zd, &[]); }).is_ok()),
            ("new", catch(|| { Tensor::<i64, D>::new(zd, 0); }).is_ok()),
            ("read", catch(|| { let inp: &[u8] = b"1 2 3"; Tensor::<i64, D>::read(zd, &mut Reader::new(Box::new(inp))); }).is_ok()),
        ];
        for (name, accepted) in bad {
            if accepted {
                v.mismatch("tensor.ctor: zero extent accepted", ctx(json!({"ctor": name, "dims": z})));
            }
        }
    }
    for delta in [-1i64, 1] {
        let n = (data.len() as i64 + delta) as usize;
        let d2: Vec<i64> = (0..n as i64).collect();
        v.checks += 2;
        if catch(|| { Tensor::<i64, D>::from_vec(dims, d2.clone()); }).is_ok() {
            v.mismatch("tensor.ctor: data length mismatch accepted", ctx(json!({"ctor": "from_vec", "len": n})));
        }
        if catch(|| { Tensor::<i64, D>::from_slice(dims, &d2); }).is_ok() {
            v.mismatch("tensor.ctor: data length mismatch accepted", ctx(json!({"ctor": "from_slice", "len": n})));
        }
    }
    // equality: equal to a copy, different when an element differs, different from every other shape with equal data
    v.checks += 2;
    let mut d3 = data.clone();
    *d3.last_mut().unwrap() += 1;
    let a3 = Tensor::<i64, D>::from_vec(dims, d3);
    if !(a == b && a == c) || a == a3 {
        v.mismatch("tensor.eq: does not follow the elements", ctx(json!({})));
    }
    // the != operator is the negation of == (PartialEq::ne may be overridden)
    v.checks += 2;
    if a != b || a != c || !(a != a3) {
        v.mismatch("tensor.ne: is not the negation of ==", ctx(json!({})));
    }
    // clone and clone_from (the buffer-reusing form, into tensors of another shape / another element count) are copies
    {
        let mut targets: Vec<Tensor<i64, D>> = vec![Tensor::<i64, D>::new([1usize; D], 7), Tensor::<i64, D>::new([2usize; D], -1)];
        for s in arr(case, "same_count") {
            let od: [usize; D] = arr_d(&us(s));
            targets.push(Tensor::<i64, D>::new(od, 3));
        }
        targets.push(a.clone());
        for mut o in targets {
            v.checks += 1;
            let from_dims = *o.dims();
            o.clone_from(&a);
            if o != a || o.dims() != &dims || o.iter().cloned().collect::<Vec<_>>() != data {
                v.mismatch("tensor.clone_from: the copy differs from the source", ctx(json!({"target_dims": from_dims.to_vec(), "copy_dims": o.dims().to_vec()})));
            }
        }
    }
    for s in arr(case, "same_count") {
        let od: [usize; D] = arr_d(&us(s));
        v.checks += 1;
        match catch(|| { let o = Tensor::<i64, D>::from_vec(od, data.clone()); (a == o, a != o) }) {
            Ok((true, _)) => v.mismatch("tensor.eq: tensors of different shape compare equal", ctx(json!({"other_dims": s}))),
            Ok((false, false)) => v.mismatch("tensor.ne: is not the negation of ==", ctx(json!({"other_dims": s}))),
            Ok((false, true)) => {}
            Err(m) => v.mismatch("tensor.eq: panic", ctx(json!({"other_dims": s, "panic": m}))),
        }
    }
    // text rendering and reading back with the same shape
    v.checks += 2;
    let want: Vec<u8> = arr(case, "render").iter().map(|x| x.as_u64().unwrap() as u8).collect();
    match catch(|| write_bytes(&a)) {
        Err(m) => v.mismatch("tensor.write: panic", ctx(json!({"panic": m}))),
        Ok(got) => {
            if got != want {
                v.mismatch("tensor.write: rendering differs", ctx(json!({"got": String::from_utf8_lossy(&got), "want": String::from_utf8_lossy(&want)})));
            }
            let text = got.clone();
            match catch(move || Tensor::<i64, D>::read(dims, &mut Reader::new(Box::new(&text[..])))) {
                Ok(back) if back == a && back.iter().cloned().collect::<Vec<_>>() == data => {}
                Ok(_) => v.mismatch("tensor.read: reading the written text back gives a different tensor", ctx(json!({}))),
                Err(m) => v.mismatch("tensor.read: panic", ctx(json!({"panic": m}))),
            }
        }
    }
}

pub fn replay(cases_path: &str, out: &str) {
    let mut v = Verdict::new();
    let mut nontrivial = 0u64;
    for_each_case(cases_path, |case| {
        v.cases += 1;
        if v.cases % 37 == 1 {
            let mut c = case.clone();
            c["valid"] = json!(arr(&case, "valid").len());
            c["oob"] = json!(arr(&case, "oob").iter().take(6).collect::<Vec<_>>());
            v.sample(c);
        }
        let rank = arr(&case, "dims").len();
        if rank >= 2 {
            nontrivial += 1;
        }
        match rank {
            1 => replay_rank::<1>(&case, &mut v),
            2 => replay_rank::<2>(&case, &mut v),
            3 => replay_rank::<3>(&case, &mut v),
            4 => replay_rank::<4>(&case, &mut v),
            r => panic!("harness: rank {} not instantiated", r),
        }
    });
    v.extra.insert("nontrivial_cases".into(), json!(nontrivial));
    v.write(out);
}

fn io_rank<const D: usize>(rng: &mut Rng, t: &mut TraceWriter) {
    let dims_v: Vec<usize> = (0..D).map(|_| 1 + rng.usize(5)).collect();
    let dims: [usize; D] = arr_d(&dims_v);
    let n: usize = dims_v.iter().product();
    let data: Vec<i64> = (0..n).map(|_| match rng.below(6) { 0 => 0, 1 => -1, 2 => 1_000_000_000, 3 => -999_999_999, _ => rng.range_i64(-100000, 100000) }).collect();
    let d2 = data.clone();
    let r = catch(move || {
        let a = Tensor::<i64, D>::from_vec(dims, d2);
        let w = write_bytes(&a);
        let text = w.clone();
        let sched: Vec<i64> = (0..text.len() + 2).map(|i| 1 + (i % 5) as i64).collect();
        let src = crate::reader::Scripted::new(text, sched, Rc::new(std::cell::Cell::new(0)), Rc::new(std::cell::Cell::new(0)));
        let back = Tensor::<i64, D>::read(dims, &mut Reader::new(Box::new(src)));
        let eq = back == a && !(back != a);
        (w, back.iter().cloned().collect::<Vec<i64>>(), eq)
    });
    match r {
        Ok((w, back, eq)) => t.ev(json!({"ev": "io", "dims": dims_v, "data": data, "written": w, "back": back, "eq": eq})),
        Err(m) => t.ev(json!({"ev": "io", "dims": dims_v, "panic": m})),
    }
}

pub fn record(seed: u64, tier: &str, out: &str) {
    let mut rng = Rng::new(seed ^ 0xC19);
    let mut t = TraceWriter::create(out);
    let n = if tier == "thorough" { 5000 } else { 400 };
    for k in 0..n {
        match k % 4 {
            0 => io_rank::<1>(&mut rng, &mut t),
            1 => io_rank::<2>(&mut rng, &mut t),
            2 => io_rank::<3>(&mut rng, &mut t),
            _ => io_rank::<4>(&mut rng, &mut t),
        }
    }
    let ev = t.finish();
    println!("{}", json!({"events": ev, "runs": ev}));
}
