//! C15 — rlib_iter.  replay: TLC-emitted permutation / neighbour cases; record: complete submask / supermask
//! enumerations for IterTrace.tla.
use crate::util::*;
use rlib_iter::{iter_neighbours_4, iter_neighbours_4d, iter_neighbours_8, iter_permutations, iter_submasks, iter_supermasks, next_permutation};
use serde_json::{json, Value};

fn ints(v: &Value) -> Vec<i64> {
    v.as_array().unwrap().iter().map(|x| x.as_i64().unwrap()).collect()
}

pub fn replay(cases_path: &str, out: &str) {
    let mut v = Verdict::new();
    let mut nontrivial = 0u64;
    for_each_case(cases_path, |case| {
        v.cases += 1;
        if v.cases % 499 == 1 {
            v.sample(case.clone());
        }
        match gets(&case, "kind") {
            "next" => {
                let s = ints(&case["s"]);
                if s.len() >= 3 {
                    nontrivial += 1;
                }
                let want = ints(&case["want"]);
                let more = case["more"].as_bool().unwrap();
                // as numbers, as strings and as tuples: Ord of different element types
                let mut a = s.clone();
                let mut b: Vec<String> = s.iter().map(|x| format!("k{}", x)).collect();
                let mut c: Vec<(i64, u8)> = s.iter().map(|&x| (x, 7u8)).collect();
                v.checks += 3;
                match catch(|| (next_permutation(&mut a), next_permutation(&mut b), next_permutation(&mut c))) {
                    Err(m) => v.mismatch("iter.next_permutation: panic", json!({"case": case, "panic": m})),
                    Ok((ra, rb, rc)) => {
                        let bw: Vec<String> = want.iter().map(|x| format!("k{}", x)).collect();
                        let cw: Vec<(i64, u8)> = want.iter().map(|&x| (x, 7u8)).collect();
                        if a != want || ra != more || b != bw || rb != more || c != cw || rc != more {
                            v.mismatch("iter.next_permutation: not the lexicographic successor", json!({"case": case, "got": a, "returned": ra}));
                        }
                    }
                }
            }
            "all" => {
                let s = ints(&case["s"]);
                nontrivial += 1;
                let want: Vec<Vec<i64>> = arr(&case, "want").iter().map(ints).collect();
                // the input handed over in a scrambled order: iter_permutations sorts first
                let mut scr = s.clone();
                scr.reverse();
                if scr.len() > 2 {
                    scr.swap(0, 1);
                }
                v.checks += 1;
                match catch(|| iter_permutations(scr).take(want.len() + 2).collect::<Vec<_>>()) {
                    Err(m) => v.mismatch("iter.iter_permutations: panic", json!({"case": case, "panic": m})),
                    Ok(got) if got != want => v.mismatch("iter.iter_permutations: not each distinct arrangement once in lexicographic order",
                                                         json!({"case": case, "got_len": got.len(), "want_len": want.len(), "got_head": got.iter().take(6).collect::<Vec<_>>()})),
                    _ => {}
                }
                // the same listing consumed through the other entry points of the Iterator trait (all bounded by take)
                let cnt = want.len();
                let mk = || iter_permutations(s.clone());
                let views = catch(|| {
                    let mut bad: Vec<String> = vec![];
                    for k in [0usize, 1, 2, cnt.saturating_sub(1), cnt, cnt + 1] {
                        if mk().nth(k) != want.get(k).cloned() {
                            bad.push(format!("nth({})", k));
                        }
                        if mk().skip(k).take(cnt + 2).collect::<Vec<_>>() != want.iter().skip(k).cloned().collect::<Vec<_>>() {
                            bad.push(format!("skip({})", k));
                        }
                        // nth in the middle of the listing, and what follows it
                        let mut it = mk();
                        it.next();
                        let got = it.nth(k);
                        // (an iterator is not polled again once it has returned None: it need not be fused)
                        let rest: Vec<Vec<i64>> = if got.is_some() { it.take(cnt + 2).collect() } else { vec![] };
                        if got != want.get(k + 1).cloned() || rest != want.iter().skip(k + 2).cloned().collect::<Vec<_>>() {
                            bad.push(format!("next(); nth({})", k));
                        }
                    }
                    for st in [2usize, 3] {
                        if mk().step_by(st).take(cnt + 2).collect::<Vec<_>>() != want.iter().step_by(st).cloned().collect::<Vec<_>>() {
                            bad.push(format!("step_by({})", st));
                        }
                    }
                    for taken in [0usize, 1, 2, 3, cnt] {
                        if taken > cnt {
                            continue;
                        }
                        let mut it = mk();
                        for _ in 0..taken {
                            it.next();
                        }
                        let w = if taken >= cnt { None } else { want.last().cloned() };
                        if it.last() != w {
                            bad.push(format!("last() after {} items", taken));
                        }
                    }
                    if mk().take(cnt + 2).count() != cnt {
                        bad.push("count".into());
                    }
                    bad
                });
                v.checks += 1;
                match views {
                    Err(m) => v.mismatch("iter.iter_permutations: panic", json!({"case": case, "panic": m, "through": "nth / skip / step_by / last"})),
                    Ok(bad) if !bad.is_empty() => v.mismatch("iter.iter_permutations: not each distinct arrangement once in lexicographic order",
                                                             json!({"case": case, "entry_points_that_disagree": bad})),
                    _ => {}
                }
            }
            "grid" => {
                let (n, m, i, j) = (getu(&case, "n"), getu(&case, "m"), getu(&case, "i"), getu(&case, "j"));
                if n > 1 && m > 1 {
                    nontrivial += 1;
                }
                let p = |x: &Value| -> Vec<(usize, usize)> { x.as_array().unwrap().iter().map(|q| (q[0].as_u64().unwrap() as usize, q[1].as_u64().unwrap() as usize)).collect() };
                v.checks += 3;
                match catch(|| (iter_neighbours_4(n, m, i, j).collect::<Vec<_>>(), iter_neighbours_4d(n, m, i, j).collect::<Vec<_>>(), iter_neighbours_8(n, m, i, j).collect::<Vec<_>>())) {
                    Err(pn) => v.mismatch("iter.neighbours: panic", json!({"case": case, "panic": pn})),
                    Ok((a, b, c)) => {
                        for (name, got, want) in [("iter_neighbours_4", a, p(&case["n4"])), ("iter_neighbours_4d", b, p(&case["n4d"])), ("iter_neighbours_8", c, p(&case["n8"]))] {
                            if got != want {
                                v.mismatch(&format!("iter.{}: wrong neighbour list", name), json!({"case": case, "got": got}));
                            }
                        }
                    }
                }
            }
            k => panic!("harness: unknown case kind {}", k),
        }
    });
    v.extra.insert("nontrivial_cases".into(), json!(nontrivial));
    v.write(out);
}

fn limbs_fixed(v: u128, bits: u32) -> Vec<u32> {
    let n = (bits + 11) / 12;
    (0..n).map(|i| ((v >> (12 * i)) & 0xFFF) as u32).collect()
}

macro_rules! masks_for {
    ($t:ty, $u:ty, $tw:expr, $name:expr, $x:expr, $elems:expr) => {{
        let bits = <$t>::BITS;
        let x: $t = $x as $u as $t;
        for dir in ["sub", "super"] {
            let pc = if dir == "sub" { (x as $u).count_ones() } else { (x as $u).count_zeros() };
            if pc > 12 {
                continue;
            }
            let r = catch(|| {
                if dir == "sub" {
                    iter_submasks(x).take(5000).map(|s| limbs_fixed(s as $u as u128, bits)).collect::<Vec<_>>()
                } else {
                    iter_supermasks(x).take(5000).map(|s| limbs_fixed(s as $u as u128, bits)).collect::<Vec<_>>()
                }
            });
            match r {
                Ok(list) => {
                    $elems += list.len() as u64;
                    $tw.ev(json!({"ev": "masks", "ty": $name, "bits": bits, "dir": dir, "x": limbs_fixed(x as $u as u128, bits), "list": list}));
                }
                Err(p) => $tw.ev(json!({"ev": "masks", "ty": $name, "bits": bits, "dir": dir, "x": limbs_fixed(x as $u as u128, bits), "panic": p})),
            }
        }
    }};
}

pub fn record(seed: u64, tier: &str, out: &str) {
    let thorough = tier == "thorough";
    let mut rng = Rng::new(seed ^ 0xC15);
    let mut t = TraceWriter::create(out);
    let mut elems = 0u64;
    // 8-bit types: all masks
    for x in 0..256u32 {
        masks_for!(u8, u8, t, "u8", x, elems);
        masks_for!(i8, u8, t, "i8", x, elems);
    }
    // 16-bit types: every mask whose popcount (submasks) / zero count (supermasks) is small
    let lim = if thorough { 6 } else { 4 };
    for x in 0..65536u32 {
        let pc = (x as u16).count_ones();
        if pc <= lim || 16 - pc <= lim {
            // masks_for skips the direction whose enumeration would be long
            let bits_ok_sub = pc <= lim;
            let bits_ok_sup = 16 - pc <= lim;
            let _ = (bits_ok_sub, bits_ok_sup);
            if x % 2 == 0 {
                masks_for16(&mut t, x as u16, true, lim, &mut elems);
            } else {
                masks_for16(&mut t, x as u16, false, lim, &mut elems);
            }
        }
    }
    // wider types: structured and random masks with at most 8 (12) free bits
    let n = if thorough { 600 } else { 120 };
    for k in 0..n {
        let free = 1 + rng.below(if thorough { 10 } else { 8 }) as u32;
        macro_rules! wide {
            ($t:ty, $u:ty, $name:expr) => {{
                let bits = <$t>::BITS;
                // choose `free` bit positions with emphasis on the top bit and limb boundaries
                let mut m: u128 = 0;
                let specials = [bits - 1, 0, 11, 12, 23, 24, 31, 32, 63, 64, bits / 2];
                for f in 0..free {
                    let p = if f < 2 && rng.chance(1, 2) { specials[rng.usize(specials.len())].min(bits - 1) } else { rng.below(bits as u64) as u32 };
                    m |= 1u128 << p;
                }
                let full: u128 = if bits == 128 { u128::MAX } else { (1u128 << bits) - 1 };
                // submasks of a sparse mask, supermasks of its complement
                let x_sub = m;
                let x_sup = full & !m;
                masks_for!($t, $u, t, $name, x_sub, elems);
                masks_for!($t, $u, t, $name, x_sup, elems);
            }};
        }
        match k % 8 {
            0 => wide!(u32, u32, "u32"),
            1 => wide!(i32, u32, "i32"),
            2 => wide!(u64, u64, "u64"),
            3 => wide!(i64, u64, "i64"),
            4 => wide!(u128, u128, "u128"),
            5 => wide!(i128, u128, "i128"),
            6 => wide!(usize, usize, "usize"),
            _ => wide!(isize, usize, "isize"),
        }
    }
    // next_permutation on sequences longer than the generator enumerates: repeated elements, long non-increasing tails
    for k in 0..(if thorough { 3000 } else { 400 }) {
        let len = 8 + rng.usize(40);
        let alpha = 1 + rng.below(4) as i64;
        let mut seq: Vec<i64> = (0..len).map(|_| rng.range_i64(0, alpha)).collect();
        match k % 4 {
            0 => {
                // pivot followed by a long non-increasing tail that contains the pivot's value again
                seq.sort();
                seq.reverse();
                let p = rng.usize(len.min(6));
                let v = seq[len - 1];
                seq[p] = v;
            }
            1 => {
                seq.sort();
                seq.reverse();
                let p = rng.usize(len - 1);
                seq.swap(p, p + 1);
            }
            2 => seq.sort(),
            _ => {}
        }
        let mut w = seq.clone();
        match catch(move || { let r = next_permutation(&mut w); (w, r) }) {
            Ok((next, ret)) => t.ev(json!({"ev": "perm_long", "op": "next_permutation", "seq": seq, "next": next, "ret": ret})),
            Err(p) => t.ev(json!({"ev": "perm_long", "op": "next_permutation", "seq": seq, "panic": p})),
        }
    }
    // neighbour iterators on implicit grids beyond 2^31 / 2^32 (coordinates relative to the logged base)
    for k in 0..(if thorough { 600 } else { 120 }) {
        let base: usize = *rng.pick(&[(1usize << 31) - 3, (1 << 31) - 1, 1 << 31, (1 << 32) - 2, 1 << 32, 1_000_000_000_000, (1 << 62) + 5, isize::MAX as usize - 9]);
        let (nr, mr) = (rng.range_i64(1, 6), rng.range_i64(1, 6));
        let (ir, jr) = (rng.range_i64(0, nr - 1), rng.range_i64(0, mr - 1));
        let (n, m, i, j) = (base + nr as usize, base + mr as usize, base + ir as usize, base + jr as usize);
        let _ = k;
        let rel = |v: Vec<(usize, usize)>| -> Vec<Vec<i64>> { v.iter().map(|&(x, y)| vec![(x as i128 - base as i128) as i64, (y as i128 - base as i128) as i64]).collect() };
        match catch(|| (iter_neighbours_4(n, m, i, j).collect::<Vec<_>>(), iter_neighbours_4d(n, m, i, j).collect::<Vec<_>>(), iter_neighbours_8(n, m, i, j).collect::<Vec<_>>())) {
            Ok((a, b, c)) => t.ev(json!({"ev": "nbr_big", "op": "iter_neighbours", "base": base.to_string(), "nr": nr, "mr": mr, "ir": ir, "jr": jr,
                                         "n4": rel(a), "n4d": rel(b), "n8": rel(c)})),
            Err(p) => t.ev(json!({"ev": "nbr_big", "op": "iter_neighbours", "base": base.to_string(), "panic": p})),
        }
    }
    let ev = t.finish();
    println!("{}", json!({"events": ev, "runs": 1, "mask_elements": elems, "nontrivial": elems}));
}

fn masks_for16(t: &mut TraceWriter, x: u16, unsigned: bool, lim: u32, elems: &mut u64) {
    let bits = 16u32;
    for dir in ["sub", "super"] {
        let pc = if dir == "sub" { x.count_ones() } else { x.count_zeros() };
        if pc > lim {
            continue;
        }
        let r = catch(|| match (dir, unsigned) {
            ("sub", true) => iter_submasks(x).take(5000).map(|s| limbs_fixed(s as u128, bits)).collect::<Vec<_>>(),
            ("sub", false) => iter_submasks(x as i16).take(5000).map(|s| limbs_fixed(s as u16 as u128, bits)).collect::<Vec<_>>(),
            (_, true) => iter_supermasks(x).take(5000).map(|s| limbs_fixed(s as u128, bits)).collect::<Vec<_>>(),
            (_, false) => iter_supermasks(x as i16).take(5000).map(|s| limbs_fixed(s as u16 as u128, bits)).collect::<Vec<_>>(),
        });
        let name = if unsigned { "u16" } else { "i16" };
        match r {
            Ok(list) => {
                *elems += list.len() as u64;
                t.ev(json!({"ev": "masks", "ty": name, "bits": bits, "dir": dir, "x": limbs_fixed(x as u128, bits), "list": list}));
            }
            Err(p) => t.ev(json!({"ev": "masks", "ty": name, "bits": bits, "dir": dir, "x": limbs_fixed(x as u128, bits), "panic": p})),
        }
    }
}
