//! C12 — rlib_bitset::Bitset<N>.  replay: TLC-emitted states of BitsetGen (with the full successor table);
//! record: random histories over the whole index range for BitsetTrace.tla.
use crate::util::*;
use rlib_bitset::Bitset;
use serde_json::{json, Value};

fn decode(enc: &Value) -> Vec<usize> {
    let mut out = vec![];
    for (c, v) in enc.as_array().unwrap().iter().enumerate() {
        let v = v.as_u64().unwrap();
        for b in 0..16 {
            if v >> b & 1 == 1 {
                out.push(16 * c + b);
            }
        }
    }
    out
}

/// applies one operation of the spec's vocabulary to (s, t)
fn apply<const N: usize>(s: &mut Bitset<N>, t: &mut Bitset<N>, name: &str, x: usize, w: &[u64]) {
    match name {
        "set" => s.set(x),
        "remove" => s.remove(x),
        "flip" => s.flip(x),
        "clear" => s.clear(),
        "from_u64" => *s = Bitset::<N>::from_u64(w.iter().fold(0u64, |a, &b| a | 1u64 << b)),
        "and" => *s = &*s & &*t,
        "or" => *s = &*s | &*t,
        "xor" => *s = &*s ^ &*t,
        "and_assign" => *s &= &*t,
        "or_assign" => *s |= &*t,
        "xor_assign" => *s ^= &*t,
        "not" => *s = !s.clone(),
        "and_self" => *s = &*s & &*s,
        "or_self" => *s = &*s | &*s,
        "xor_self" => *s = &*s ^ &*s,
        "t_set" => t.set(x),
        "t_flip" => t.flip(x),
        "t_copy" => *t = s.clone(),
        o => panic!("harness: unknown op {}", o),
    }
}

/// every observable of one bitset against the set the specification demands; returns descriptions of disagreements
fn observe<const N: usize>(b: &Bitset<N>, want: &[usize]) -> Vec<(String, Value, Value)> {
    let mut bad = vec![];
    let it: Vec<usize> = b.iter_bits().collect();
    if it != want {
        bad.push(("iter_bits".to_string(), json!(it), json!(want)));
    }
    // the same enumeration through the other entry points of the Iterator trait (an iterator may override them):
    // the ascending enumeration of the same set, consumed by nth / skip / step_by / last / count after a few next()
    for adv in [0usize, 1, 2, 5] {
        for k in [0usize, 1, 2, 3, 7] {
            let mut itr = b.iter_bits();
            for _ in 0..adv {
                itr.next();
            }
            let got = itr.nth(k);
            let w = want.get(adv + k).cloned();
            if got != w {
                bad.push(("iter_bits".to_string(), json!({"after_next_calls": adv, "nth": k, "got": got}), json!(w)));
            }
            // and the iterator continues right behind the element nth returned
            // (not polled again once it has returned None: an iterator need not be fused)
            let rest: Vec<usize> = if got.is_some() { itr.collect() } else { vec![] };
            let wrest: Vec<usize> = want.iter().skip(adv + k + 1).cloned().collect();
            if rest != wrest && bad.len() < 4 {
                bad.push(("iter_bits".to_string(), json!({"after_next_calls": adv, "nth": k, "rest": rest}), json!(wrest)));
            }
        }
    }
    for st in [2usize, 3] {
        let got: Vec<usize> = b.iter_bits().step_by(st).collect();
        let w: Vec<usize> = want.iter().step_by(st).cloned().collect();
        if got != w {
            bad.push(("iter_bits".to_string(), json!({"step_by": st, "got": got}), json!(w)));
        }
    }
    if b.iter_bits().skip(1).collect::<Vec<_>>() != want.iter().skip(1).cloned().collect::<Vec<_>>() || b.iter_bits().last() != want.last().cloned()
        || b.iter_bits().count() != want.len() || b.iter_bits().min() != want.first().cloned() || b.iter_bits().max() != want.last().cloned() {
        bad.push(("iter_bits".to_string(), json!("skip(1) / last / count / min / max"), json!(want)));
    }
    if b.count() != want.len() {
        bad.push(("count".to_string(), json!(b.count()), json!(want.len())));
    }
    let mut chars = String::with_capacity(64 * N);
    for i in 0..64 * N {
        let w = want.binary_search(&i).is_ok();
        if b.test(i) != w {
            bad.push(("test".to_string(), json!({"x": i, "got": b.test(i)}), json!(w)));
            break;
        }
        chars.push(if w { '1' } else { '0' });
    }
    if chars.len() == 64 * N {
        if format!("{}", b) != chars {
            bad.push(("Display".to_string(), json!(format!("{}", b)), json!(chars)));
        }
        if format!("{:?}", b) != chars {
            bad.push(("Debug".to_string(), json!(format!("{:?}", b)), json!(chars)));
        }
    }
    // equality against an independently constructed bitset, and against one that differs in one bit
    let mut same = Bitset::<N>::new();
    for &i in want {
        same.set(i);
    }
    if !(b == &same) {
        bad.push(("==".to_string(), json!(false), json!(true)));
    }
    // clone_from into a bitset with other contents is a copy
    let mut cf = Bitset::<N>::new();
    cf.set(0);
    cf.set(64 * N - 1);
    cf.clone_from(b);
    if !(&cf == b) || cf.iter_bits().collect::<Vec<_>>() != want {
        bad.push(("clone_from".to_string(), json!(cf.iter_bits().collect::<Vec<_>>()), json!(want)));
    }
    let mut other = same.clone();
    other.flip(64 * N - 1);
    if b == &other && bad.is_empty() {
        bad.push(("==".to_string(), json!("equal to a bitset differing in the last bit"), json!(false)));
    }
    bad
}

fn replay_n<const N: usize>(case: &Value, v: &mut Verdict) {
    let mut s = Bitset::<N>::new();
    let mut t = Bitset::<N>::new();
    let r = catch(|| {
        for op in arr(case, "hist") {
            let w: Vec<u64> = arr(op, "w").iter().map(|x| x.as_u64().unwrap()).collect();
            apply(&mut s, &mut t, gets(op, "op"), getu(op, "x"), &w);
        }
    });
    if let Err(m) = r {
        v.mismatch("bitset: panic while replaying the history", json!({"case": case, "panic": m}));
        return;
    }
    let (ws, wt) = (decode(&case["s"]), decode(&case["t"]));
    let r = catch(|| {
        let mut bad = observe(&s, &ws);
        bad.extend(observe(&t, &wt));
        if (s == t) != case["eq"].as_bool().unwrap() {
            bad.push(("== between the two operands".into(), json!(s == t), case["eq"].clone()));
        }
        bad
    });
    v.checks += 12;
    match r {
        Err(m) => v.mismatch("bitset: panic in a query", json!({"case": case, "panic": m})),
        Ok(bad) => {
            for (what, got, want) in bad {
                v.mismatch(&format!("bitset.{}: differs from the index set", what), json!({"case": case, "got": got, "want": want}));
            }
        }
    }
    // every transition out of this state
    let ops = arr(case, "ops");
    let succ = arr(case, "succ");
    for (i, op) in ops.iter().enumerate() {
        let name = op[0].as_str().unwrap();
        let x = op[1].as_u64().unwrap() as usize;
        let w: Vec<u64> = op[2].as_array().unwrap().iter().map(|q| q.as_u64().unwrap()).collect();
        let (mut s2, mut t2) = (s.clone(), t.clone());
        v.checks += 1;
        match catch(|| apply(&mut s2, &mut t2, name, x, &w)) {
            Err(m) => v.mismatch(&format!("bitset.{}: panic", name), json!({"case": case, "op": op, "panic": m})),
            Ok(()) => {
                let (es, et) = (decode(&succ[i][0]), decode(&succ[i][1]));
                let gs: Vec<usize> = (0..64 * N).filter(|&k| s2.test(k)).collect();
                let gt: Vec<usize> = (0..64 * N).filter(|&k| t2.test(k)).collect();
                if gs != es || gt != et {
                    v.mismatch(&format!("bitset.{}: wrong resulting set", name), json!({"case": case, "op": op, "got": [gs, gt], "want": [es, et]}));
                }
            }
        }
    }
}

pub fn replay(cases_path: &str, out: &str) {
    let mut v = Verdict::new();
    let mut nontrivial = 0u64;
    for_each_case(cases_path, |case| {
        v.cases += 1;
        if v.cases % 1013 == 1 {
            let mut c = case.clone();
            c["succ"] = json!("(one entry per operation; omitted in the sample)");
            c["ops"] = json!(arr(&case, "ops").len());
            v.sample(c);
        }
        if geti(&case, "count") >= 2 {
            nontrivial += 1;
        }
        match getu(&case, "n") {
            1 => replay_n::<1>(&case, &mut v),
            2 => replay_n::<2>(&case, &mut v),
            3 => replay_n::<3>(&case, &mut v),
            n => panic!("harness: capacity {} not instantiated", n),
        }
    });
    v.extra.insert("nontrivial_cases".into(), json!(nontrivial));
    v.write(out);
}

// ------------------------------------------------------------------------------------------- record

fn record_n<const N: usize>(rng: &mut Rng, t: &mut TraceWriter, ops: usize) {
    let mut s = Bitset::<N>::new();
    let mut tt = Bitset::<N>::new();
    t.ev(json!({"ev": "reset", "n": N}));
    let edge = |rng: &mut Rng| -> usize {
        let w = rng.usize(N);
        match rng.below(6) {
            0 => 64 * w,
            1 => 64 * w + 63,
            2 => 64 * N - 1,
            3 => (64 * w + 64) % (64 * N),
            _ => rng.usize(64 * N),
        }
    };
    for _ in 0..ops {
        let roll = rng.below(100);
        let x = edge(rng);
        let (name, w): (&str, Vec<u64>) = match roll {
            0..=24 => ("set", vec![]),
            25..=34 => ("remove", vec![]),
            35..=44 => ("flip", vec![]),
            45 => ("clear", vec![]),
            46..=48 => ("from_u64", (0..64).filter(|_| rng.chance(1, 3)).collect()),
            49..=52 => ("and", vec![]),
            53..=56 => ("or", vec![]),
            57..=60 => ("xor", vec![]),
            61..=63 => ("and_assign", vec![]),
            64..=66 => ("or_assign", vec![]),
            67..=69 => ("xor_assign", vec![]),
            70..=71 => ("not", vec![]),
            72 => (["and_self", "or_self", "xor_self"][x % 3], vec![]),
            73..=80 => ("t_set", vec![]),
            81..=84 => ("t_flip", vec![]),
            85 => ("t_copy", vec![]),
            _ => ("query", vec![]),
        };
        if name == "query" {
            match rng.below(5) {
                0 => t.ev(json!({"ev": "iter", "res": s.iter_bits().collect::<Vec<_>>()})),
                1 => t.ev(json!({"ev": "count", "res": s.count()})),
                2 => t.ev(json!({"ev": "test", "x": x, "res": s.test(x)})),
                3 => t.ev(json!({"ev": "eq", "res": s == tt})),
                _ => {
                    // the rendering as the positions of the '1' characters plus its length
                    let d = format!("{}", s);
                    let dbg = format!("{:?}", s);
                    let ones: Vec<usize> = d.bytes().enumerate().filter(|(_, c)| *c == b'1').map(|(i, _)| i).collect();
                    let clean = d.bytes().all(|c| c == b'0' || c == b'1');
                    t.ev(json!({"ev": "display", "len": d.len(), "ones": ones, "only01": clean, "debug_same": d == dbg}));
                }
            }
            continue;
        }
        let r = catch(|| apply(&mut s, &mut tt, name, x, &w));
        let mut ev = json!({"ev": "op", "op": name, "x": x, "w": w});
        if let Err(m) = r {
            ev["panic"] = json!(m);
            t.ev(ev);
            return;
        }
        t.ev(ev);
    }
    t.ev(json!({"ev": "iter", "res": s.iter_bits().collect::<Vec<_>>()}));
}

pub fn record(seed: u64, tier: &str, out: &str) {
    let thorough = tier == "thorough";
    let mut rng = Rng::new(seed ^ 0xC12);
    let mut t = TraceWriter::create(out);
    let rounds = if thorough { 12 } else { 6 };
    let ops = if thorough { 2000 } else { 900 };
    let mut runs = 0;
    for _ in 0..rounds {
        record_n::<1>(&mut rng, &mut t, ops);
        record_n::<2>(&mut rng, &mut t, ops);
        record_n::<3>(&mut rng, &mut t, ops);
        record_n::<10>(&mut rng, &mut t, ops);
        // capacities around internal block sizes an implementation might use (4-word, 16-word blocks) and beyond
        record_n::<5>(&mut rng, &mut t, ops / 3);
        record_n::<17>(&mut rng, &mut t, ops / 8);
        runs += 6;
    }
    record_n::<4>(&mut rng, &mut t, ops / 3);
    record_n::<7>(&mut rng, &mut t, ops / 3);
    record_n::<16>(&mut rng, &mut t, ops / 8);
    record_n::<33>(&mut rng, &mut t, ops / 10);
    runs += 4;
    let ev = t.finish();
    println!("{}", json!({"events": ev, "runs": runs}));
}
