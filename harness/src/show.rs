//! Beyond the listed properties: rlib_show (Show / ShowPretty / show_struct!), the Debug and TreePrinter impls of
//! rlib_treap and the out!/outln! macros of rlib_io, recorded for spec/show/ShowTrace.tla.
//!
//! Every value is logged as a tree (module Show); leaves carry the text the library produced for them on their own.

use crate::util::*;
use rlib_show::{Show, ShowPretty, ShowSettings};
use rlib_treap::{TreePrinter, Treap, TreapItem, TreapItemSized, TreapNode};
use serde_json::{json, Value};
use std::collections::{BTreeMap, BTreeSet};

fn bytes(s: &str) -> Vec<u32> {
    s.bytes().map(|b| b as u32).collect()
}

pub trait Tree {
    fn tree(&self, st: &ShowSettings) -> Value;
}

macro_rules! tree_int {
    ($($tp:ty, $w:expr);*) => {$(
        impl Tree for $tp {
            #[allow(unused_comparisons)]
            fn tree(&self, st: &ShowSettings) -> Value {
                let (neg, mag) = signed_limbs_wide(*self as i128, (*self as u128), *self < 0);
                json!({"k": "int", "w": $w, "neg": neg, "mag": mag, "s": bytes(&self.show(st))})
            }
        }
    )*};
}

/// sign and magnitude limbs of an integer of any width (u128 values above i128::MAX included)
fn signed_limbs_wide(as_i: i128, as_u: u128, negative: bool) -> (bool, Vec<u32>) {
    if negative { (true, limbs(as_i.unsigned_abs())) } else { (false, limbs(as_u)) }
}

tree_int!(i8, 32; u8, 32; i16, 32; u16, 32; i32, 32; u32, 32; i64, 64; u64, 64; isize, 64; usize, 64; i128, 128; u128, 128);

fn float_tree(x: f64, s: String) -> Value {
    let b = x.to_bits();
    let neg = b >> 63 == 1;
    let ex = ((b >> 52) & 0x7FF) as i64;
    let frac = b & ((1u64 << 52) - 1);
    if ex == 0x7FF {
        return json!({"k": "float", "neg": neg, "cls": if frac == 0 { "inf" } else { "nan" }, "m": [], "e": 0, "s": bytes(&s)});
    }
    let (m, e) = if ex == 0 { (frac, -1074) } else { (frac | (1u64 << 52), ex - 1075) };
    json!({"k": "float", "neg": neg, "cls": "fin", "m": limbs(m as u128), "e": e, "s": bytes(&s)})
}

impl Tree for f64 {
    fn tree(&self, st: &ShowSettings) -> Value {
        float_tree(*self, self.show(st))
    }
}

impl Tree for f32 {
    fn tree(&self, st: &ShowSettings) -> Value {
        // every f32 is exactly an f64
        float_tree(*self as f64, self.show(st))
    }
}

impl Tree for String {
    fn tree(&self, st: &ShowSettings) -> Value {
        json!({"k": "str", "raw": bytes(self), "s": bytes(&self.show(st))})
    }
}

impl Tree for &str {
    fn tree(&self, st: &ShowSettings) -> Value {
        json!({"k": "str", "raw": bytes(self), "s": bytes(&self.show(st))})
    }
}

impl Tree for char {
    fn tree(&self, st: &ShowSettings) -> Value {
        json!({"k": "char", "c": *self as u32, "s": bytes(&self.show(st))})
    }
}

impl Tree for bool {
    fn tree(&self, st: &ShowSettings) -> Value {
        json!({"k": "bool", "b": *self, "s": bytes(&self.show(st))})
    }
}

impl<T: Tree> Tree for Vec<T> {
    fn tree(&self, st: &ShowSettings) -> Value {
        json!({"k": "list", "items": self.iter().map(|x| x.tree(st)).collect::<Vec<_>>()})
    }
}

impl<T: Tree> Tree for [T] {
    fn tree(&self, st: &ShowSettings) -> Value {
        json!({"k": "list", "items": self.iter().map(|x| x.tree(st)).collect::<Vec<_>>()})
    }
}

impl<T: Tree, const N: usize> Tree for [T; N] {
    fn tree(&self, st: &ShowSettings) -> Value {
        json!({"k": "list", "items": self.iter().map(|x| x.tree(st)).collect::<Vec<_>>()})
    }
}

impl<T: Tree> Tree for BTreeSet<T> {
    fn tree(&self, st: &ShowSettings) -> Value {
        json!({"k": "set", "items": self.iter().map(|x| x.tree(st)).collect::<Vec<_>>()})
    }
}

impl<K: Tree, V: Tree> Tree for BTreeMap<K, V> {
    fn tree(&self, st: &ShowSettings) -> Value {
        json!({"k": "map", "keys": self.keys().map(|x| x.tree(st)).collect::<Vec<_>>(), "vals": self.values().map(|x| x.tree(st)).collect::<Vec<_>>()})
    }
}

macro_rules! tree_tuple {
    ($($t:ident),*) => {
        impl<$($t: Tree),*> Tree for ($($t,)*) {
            fn tree(&self, st: &ShowSettings) -> Value {
                #[allow(non_snake_case)]
                let ($($t,)*) = self;
                json!({"k": "tuple", "items": [$($t.tree(st)),*]})
            }
        }
    };
}
tree_tuple!(A, B);
tree_tuple!(A, B, C);
tree_tuple!(A, B, C, D);
tree_tuple!(A, B, C, D, E);
tree_tuple!(A, B, C, D, E, F, G, H, I, J, K, L);

// a user struct through show_struct!
pub struct Edge {
    pub from: usize,
    pub to: usize,
    pub w: i64,
    pub tag: String,
}
rlib_show::show_struct!(Edge, from, to, w, tag);

impl Tree for Edge {
    fn tree(&self, st: &ShowSettings) -> Value {
        json!({"k": "struct", "names": [bytes("from"), bytes("to"), bytes("w"), bytes("tag")],
               "items": [self.from.tree(st), self.to.tree(st), self.w.tree(st), self.tag.tree(st)]})
    }
}

fn emit<T: Show + Tree + ?Sized>(t: &mut TraceWriter, v: &T, st: &ShowSettings) {
    t.ev(json!({"ev": "show", "v": v.tree(st), "out": bytes(&v.show(st))}));
}

// ---- generators -------------------------------------------------------------------------------------------------

fn int_near(rng: &mut Rng, bits: u32) -> i128 {
    // values around powers of ten and of two, the type boundaries, small ones
    let v: i128 = match rng.usize(8) {
        0 => rng.range_i64(-20, 20) as i128,
        1 => 10i128.pow(rng.usize(38) as u32) + rng.range_i64(-2, 2) as i128,
        2 => -(10i128.pow(rng.usize(38) as u32)) + rng.range_i64(-2, 2) as i128,
        3 => (1i128 << rng.usize(127)) + rng.range_i64(-2, 2) as i128,
        4 => -((1i128 << rng.usize(127)) + rng.range_i64(-2, 2) as i128),
        5 => i128::MIN,
        6 => i128::MAX,
        _ => ((rng.u64() as i128) << 64 | rng.u64() as i128) >> rng.usize(127),
    };
    // fold into the width by truncation (wrap), keeping boundary values at the boundaries where they fit
    if bits == 128 { v } else {
        let m = 1i128 << bits;
        let r = v.rem_euclid(m);
        if r >= m / 2 { r - m } else { r }
    }
}

fn word(rng: &mut Rng) -> String {
    let n = rng.usize(6);
    (0..n).map(|_| *rng.pick(&['a', 'b', 'z', 'Q', '0', ' ', '_', '"', '\'', ',', '[', '}'])).collect()
}

fn float(rng: &mut Rng) -> f64 {
    match rng.usize(10) {
        0 => *rng.pick(&[0.0, -0.0, 0.5, -0.5, 1.5, 2.5, -2.5, 0.25, 0.125, 0.375, 1e-7, 0.05, 0.15, 0.45, 1.0, 1e15, 123456.789]),
        1 => *rng.pick(&[f64::INFINITY, f64::NEG_INFINITY, f64::NAN, f64::MAX, f64::MIN_POSITIVE, 5e-324, -5e-324, 1e300, -1e-300]),
        2 => (rng.range_i64(-4000, 4000) as f64) / 8.0,        // exact binary fractions: ties
        3 => (rng.range_i64(-100000, 100000) as f64) / 1000.0, // decimal fractions: inexact
        4 => (rng.range_i64(-99, 99) as f64 + 0.5) / 10f64.powi(rng.usize(6) as i32),
        5 => f64::from_bits(rng.u64()),
        _ => {
            let m = rng.u64() >> 11;
            let e = rng.range_i64(-70, 40) as i32;
            let x = (m as f64) * 2f64.powi(e - 53);
            if rng.chance(1, 2) { -x } else { x }
        }
    }
}

fn settings(rng: &mut Rng, t: &mut TraceWriter, round: usize) -> ShowSettings {
    let mut st = ShowSettings::new();
    if round % 3 != 0 {
        st.item_width = *rng.pick(&[0usize, 1, 2, 3, 5, 8, 12]);
        st.float_precision = *rng.pick(&[0usize, 1, 2, 3, 6, 9, 12, 17]);
        if round % 3 == 2 {
            st.inf_32 = *rng.pick(&[0u32, 1, 2, 100, 128, 255, 256, 32768, 1_000_000_000, 2_147_483_647, 2_147_483_648, u32::MAX]);
            st.inf_64 = *rng.pick(&[0u64, 1, 1000, 1 << 31, 1 << 63, (1 << 63) - 1, 10u64.pow(18), 10u64.pow(18) + 1, u64::MAX]);
            st.inf_128 = *rng.pick(&[0u128, 1, 10u128.pow(18), 10u128.pow(36), 10u128.pow(36) - 1, 1 << 127, (1 << 127) + 1, u128::MAX]);
        }
    }
    t.ev(json!({"ev": "reset", "inf32": limbs(st.inf_32 as u128), "inf64": limbs(st.inf_64 as u128), "inf128": limbs(st.inf_128),
                "prec": st.float_precision, "width": st.item_width}));
    st
}

// an item for the treap printers: Debug prints the number, optionally in brackets
#[derive(Clone)]
struct PItem {
    c: i64,
    len: usize,
}
impl std::fmt::Debug for PItem {
    fn fmt(&self, f: &mut std::fmt::Formatter<'_>) -> std::fmt::Result {
        write!(f, "<{}>", self.c)
    }
}
impl TreapItem for PItem {
    fn update(&mut self, l: Option<&Self>, r: Option<&Self>) {
        self.len = 1 + l.map(|x| x.len).unwrap_or(0) + r.map(|x| x.len).unwrap_or(0);
    }
}
impl TreapItemSized for PItem {
    fn size(&self) -> usize {
        self.len
    }
}

fn pre_text(root: &Option<Box<TreapNode<PItem>>>) -> Vec<Value> {
    fn cnt(n: &Option<Box<TreapNode<PItem>>>) -> usize {
        match n { None => 0, Some(b) => 1 + cnt(&b.left) + cnt(&b.right) }
    }
    fn go(n: &Option<Box<TreapNode<PItem>>>, out: &mut Vec<Value>) {
        if let Some(b) = n {
            out.push(json!([bytes(&format!("<{}>", b.item.c)), cnt(&b.left), cnt(&b.right)]));
            go(&b.left, out);
            go(&b.right, out);
        }
    }
    let mut out = vec![];
    go(root, &mut out);
    out
}

pub fn record(seed: u64, tier: &str, out: &str) {
    let thorough = tier == "thorough";
    let mut rng = Rng::new(seed ^ 0x5401);
    let mut t = TraceWriter::create(out);
    let rounds = if thorough { 400 } else { 60 };
    for round in 0..rounds {
        let st = settings(&mut rng, &mut t, round);
        // scalars of every integer type
        for _ in 0..6 {
            emit(&mut t, &(int_near(&mut rng, 8) as i8), &st);
            emit(&mut t, &(int_near(&mut rng, 8) as u8), &st);
            emit(&mut t, &(int_near(&mut rng, 16) as i16), &st);
            emit(&mut t, &(int_near(&mut rng, 16) as u16), &st);
            emit(&mut t, &(int_near(&mut rng, 32) as i32), &st);
            emit(&mut t, &(int_near(&mut rng, 32) as u32), &st);
            emit(&mut t, &(int_near(&mut rng, 64) as i64), &st);
            emit(&mut t, &(int_near(&mut rng, 64) as u64), &st);
            emit(&mut t, &(int_near(&mut rng, 64) as isize), &st);
            emit(&mut t, &(int_near(&mut rng, 64) as usize), &st);
            emit(&mut t, &int_near(&mut rng, 128), &st);
            emit(&mut t, &(int_near(&mut rng, 128) as u128), &st);
            emit(&mut t, &float(&mut rng), &st);
            emit(&mut t, &(float(&mut rng) as f32), &st);
        }
        emit(&mut t, &i64::MIN, &st);
        emit(&mut t, &i32::MIN, &st);
        emit(&mut t, &i8::MIN, &st);
        emit(&mut t, &u128::MAX, &st);
        emit(&mut t, &word(&mut rng), &st);
        emit(&mut t, &word(&mut rng).as_str(), &st);
        emit(&mut t, rng.pick(&['a', 'Z', '0', ' ', '\'', '"']), &st);
        emit(&mut t, &rng.chance(1, 2), &st);
        // containers
        let n = rng.usize(6);
        let v32: Vec<i32> = (0..n).map(|_| int_near(&mut rng, 32) as i32).collect();
        emit(&mut t, &v32, &st);
        emit(&mut t, &v32[..], &st);
        let v128: Vec<u128> = (0..rng.usize(4)).map(|_| int_near(&mut rng, 128) as u128).collect();
        emit(&mut t, &v128, &st);
        let arr: [u8; 4] = [rng.u64() as u8, 0, 255, rng.u64() as u8];
        emit(&mut t, &arr, &st);
        let empty: [i64; 0] = [];
        emit(&mut t, &empty, &st);
        let vf: Vec<f64> = (0..rng.usize(5)).map(|_| float(&mut rng)).collect();
        emit(&mut t, &vf, &st);
        let vs: Vec<String> = (0..rng.usize(4)).map(|_| word(&mut rng)).collect();
        emit(&mut t, &vs, &st);
        let vv: Vec<Vec<i64>> = (0..rng.usize(5)).map(|_| (0..rng.usize(5)).map(|_| rng.range_i64(-1500, 1500)).collect()).collect();
        emit(&mut t, &vv, &st);
        let vt: Vec<(i32, String)> = (0..rng.usize(4)).map(|_| (rng.range_i64(-50, 50) as i32, word(&mut rng))).collect();
        emit(&mut t, &vt, &st);
        let set: BTreeSet<i64> = (0..rng.usize(7)).map(|_| int_near(&mut rng, 64) as i64).collect();
        emit(&mut t, &set, &st);
        let sets: BTreeSet<(u8, char)> = (0..rng.usize(5)).map(|_| (rng.u64() as u8 % 4, *rng.pick(&['x', 'y']))).collect();
        emit(&mut t, &sets, &st);
        let map: BTreeMap<i32, Vec<i64>> = (0..rng.usize(5)).map(|_| (rng.range_i64(-9, 9) as i32, (0..rng.usize(4)).map(|_| rng.range_i64(-100, 100)).collect())).collect();
        emit(&mut t, &map, &st);
        let map2: BTreeMap<String, (i64, bool)> = (0..rng.usize(5)).map(|_| (word(&mut rng), (int_near(&mut rng, 64) as i64, rng.chance(1, 2)))).collect();
        emit(&mut t, &map2, &st);
        emit(&mut t, &(int_near(&mut rng, 8) as i8, int_near(&mut rng, 16) as u16, 'c', float(&mut rng)), &st);
        emit(&mut t, &(1u8, -2i16, 3u32, -4i64, 5usize, "six", '7', true, 9i128, vec![10u8], (11u8, 12u8), 13.5f32), &st);
        emit(&mut t, &(v32.clone(), set.clone(), (map.clone(), word(&mut rng))), &st);
        let e = Edge { from: rng.usize(100), to: rng.usize(100), w: int_near(&mut rng, 64) as i64, tag: word(&mut rng) };
        emit(&mut t, &e, &st);
        emit(&mut t, &vec![Edge { from: 1, to: 2, w: -3, tag: "t".into() }, e], &st);
        // show_pretty: ragged matrices, empty rows, empty matrix
        let rows = rng.usize(6);
        let mat: Vec<Vec<i64>> = (0..rows).map(|_| (0..rng.usize(6)).map(|_| int_near(&mut rng, 64) as i64 >> rng.usize(63)).collect()).collect();
        t.ev(json!({"ev": "pretty_matrix", "rows": mat.iter().map(|r| r.iter().map(|x| x.tree(&st)).collect::<Vec<_>>()).collect::<Vec<_>>(),
                    "out": bytes(&mat[..].show_pretty(&st))}));
        let smat: Vec<Vec<String>> = (0..rng.usize(4)).map(|_| (0..1 + rng.usize(3)).map(|_| word(&mut rng)).collect()).collect();
        t.ev(json!({"ev": "pretty_matrix", "rows": smat.iter().map(|r| r.iter().map(|x| x.tree(&st)).collect::<Vec<_>>()).collect::<Vec<_>>(),
                    "out": bytes(&smat[..].show_pretty(&st))}));
        t.ev(json!({"ev": "pretty_map", "v": map.tree(&st), "out": bytes(&map.show_pretty(&st))}));
        t.ev(json!({"ev": "pretty_map", "v": map2.tree(&st), "out": bytes(&map2.show_pretty(&st))}));
        // treap Debug / TreePrinter on random shapes (no pending state in this item)
        let mut tr: Treap<PItem> = Treap::new();
        for _ in 0..rng.usize(14) {
            let pos = rng.usize(tr.size() + 1);
            tr.insert_at(pos, PItem { c: rng.range_i64(-99, 999), len: 1 });
        }
        t.ev(json!({"ev": "treap_debug", "pre": pre_text(&tr.root), "out": bytes(&format!("{:?}", tr))}));
        t.ev(json!({"ev": "tree_print", "pre": pre_text(&tr.root), "out": bytes(&format!("{:?}", TreePrinter::new(&tr)))}));
        // out! / outln! through a real Writer
        out_macros(&mut rng, &mut t);
    }
    let ev = t.finish();
    println!("{}", json!({"events": ev, "runs": rounds}));
}

fn out_macros(rng: &mut Rng, t: &mut TraceWriter) {
    use rlib_io::{make_output_macro, make_output_macro_, Reader, Writer};
    use std::cell::RefCell;
    use std::rc::Rc;
    struct Sink(Rc<RefCell<Vec<u8>>>);
    impl std::io::Write for Sink {
        fn write(&mut self, b: &[u8]) -> std::io::Result<usize> {
            self.0.borrow_mut().extend_from_slice(b);
            Ok(b.len())
        }
        fn flush(&mut self) -> std::io::Result<()> {
            Ok(())
        }
    }
    let a = rng.range_i64(-1000, 1000);
    let b = rng.u64();
    let s = word(rng).replace(' ', "_");
    let c = rng.u64() as u32;
    let shape = rng.usize(6);
    let data = Rc::new(RefCell::new(Vec::new()));
    {
        let reader = Reader::new(Box::new(std::io::Cursor::new(Vec::<u8>::new())));
        let writer = Writer::new(Box::new(Sink(data.clone())));
        make_output_macro!(reader, writer);
        match shape {
            0 => { out!(a); }
            1 => { out!(a, b); }
            2 => { outln!(a, s, c); }
            3 => { outln!(); }
            4 => { outln!(a, b, s, c, a + 1, "lit"); }
            _ => { out!(s, c, b); }
        }
        writer.flush();
    }
    let (sa, sb, sc) = (bytes(&a.to_string()), bytes(&b.to_string()), bytes(&c.to_string()));
    let ss = bytes(&s);
    let (parts, ln): (Vec<Vec<u32>>, bool) = match shape {
        0 => (vec![sa], false),
        1 => (vec![sa, sb], false),
        2 => (vec![sa, ss, sc], true),
        3 => (vec![], true),
        4 => (vec![sa, sb, ss, sc, bytes(&(a + 1).to_string()), bytes("lit")], true),
        _ => (vec![ss, sc, sb], false),
    };
    let sink: Vec<u32> = data.borrow().iter().map(|&x| x as u32).collect();
    t.ev(json!({"ev": "out", "parts": parts, "ln": ln, "out": sink, "shape": shape}));
}
