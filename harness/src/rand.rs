//! C14 — rlib_rand.  record: gen_from_u64 on adversarial raw outputs (public trait method), float ranges, streams,
//! shuffles, arrangement histograms and small-range draw sequences, for RandTrace.tla.
use crate::util::*;
use rlib_rand::randomable::Randomable;
use rlib_rand::{Rand, Rng as LibRng};
use serde_json::{json, Value};
use std::collections::HashMap;

fn bi(v: i128) -> Value {
    let (neg, mag) = signed_limbs(v);
    json!({"neg": neg, "mag": mag})
}

fn fbits(x: f64) -> Value {
    let b = x.to_bits();
    json!({"neg": b >> 63 == 1, "mag": limbs((b & 0x7FFF_FFFF_FFFF_FFFF) as u128)})
}

fn raws_for(len: u128, rng: &mut Rng) -> Vec<u64> {
    let mut r = vec![0u64, 1, u64::MAX, u64::MAX - 1, 1 << 53, (1 << 53) + 1, 1 << 63, (1u64 << 63) - 1];
    if len > 0 && len <= u64::MAX as u128 {
        let l = len as u64;
        // around multiples of the length, incl. the largest multiple below 2^64
        let top = u64::MAX - (u64::MAX % l);
        for m in [l, l.wrapping_mul(2), top] {
            r.extend_from_slice(&[m.wrapping_sub(1), m, m.wrapping_add(1)]);
        }
    }
    r.push(rng.u64());
    r
}

macro_rules! small_type {
    ($t:ty, $tw:expr, $name:expr, $signed:expr, $rng:expr, $draws:expr, $step:expr) => {{
        let bits = <$t>::BITS;
        let (min, max) = (<$t>::MIN as i64, <$t>::MAX as i64);
        let step: usize = $step;
        for form in ["range", "inclusive", "to", "to_inclusive", "full"] {
            let mut rows = vec![];
            let mut panicked: Option<String> = None;
            let starts: Vec<i64> = if form == "range" || form == "inclusive" { (min..=max).step_by(step).collect() } else { vec![0] };
            for &a in &starts {
                let ends: Vec<i64> = match form {
                    "range" => (a + 1..=max).collect(),
                    "inclusive" => (a..=max).collect(),
                    "to" => (1..=max).collect(),
                    "to_inclusive" => (0..=max).collect(),
                    _ => vec![0],
                };
                for &b in &ends {
                    let len: u128 = match form { "range" => (b - a) as u128, "inclusive" => (b - a + 1) as u128, "to" => b as u128, "to_inclusive" => b as u128 + 1, _ => 1u128 << bits };
                    let raws = raws_for(len, $rng);
                    let r = catch(|| raws.iter().map(|&raw| match form {
                        "range" => ((a as $t)..(b as $t)).gen_from_u64(raw) as i64,
                        "inclusive" => ((a as $t)..=(b as $t)).gen_from_u64(raw) as i64,
                        "to" => (..(b as $t)).gen_from_u64(raw) as i64,
                        "to_inclusive" => (..=(b as $t)).gen_from_u64(raw) as i64,
                        _ => { let v: $t = (..).gen_from_u64(raw); v as i64 }
                    }).collect::<Vec<i64>>());
                    match r {
                        Ok(vals) => { $draws += vals.len() as u64; rows.push(json!([a, b, vals])); }
                        Err(p) => panicked = Some(format!("{} {}..{}: {}", form, a, b, p)),
                    }
                }
                if rows.len() > 4000 {
                    $tw.ev(json!({"ev": "ndraws", "op": "gen_from_u64", "ty": $name, "signed": $signed, "bits": bits, "form": form, "rows": rows}));
                    rows = vec![];
                }
            }
            if !rows.is_empty() {
                $tw.ev(json!({"ev": "ndraws", "op": "gen_from_u64", "ty": $name, "signed": $signed, "bits": bits, "form": form, "rows": rows}));
            }
            if let Some(p) = panicked {
                $tw.ev(json!({"ev": "ndraws", "op": "gen_from_u64", "ty": $name, "form": form, "panic": p}));
            }
        }
    }};
}

macro_rules! wide_type {
    ($t:ty, $tw:expr, $name:expr, $signed:expr, $rng:expr, $draws:expr) => {{
        let bits = <$t>::BITS;
        let (min, max) = (<$t>::MIN as i128, <$t>::MAX as i128);
        // boundary ranges: length 1, 2^k, MAX, full width, MIN+1..=MAX, around zero
        let mut ranges: Vec<(&str, i128, i128)> = vec![];
        for k in [0u32, 1, 7, 8, 31, 32, bits - 2, bits - 1] {
            let len = 1i128 << k.min(bits - 1);
            for a in [min, min + 1, -1, 0, 1, max - len, max - len + 1] {
                if a < min || a > max { continue; }
                if a + len <= max + 1 && a + len > a {
                    if a + len <= max { ranges.push(("range", a, a + len)); }
                    ranges.push(("inclusive", a, a + len - 1));
                }
            }
        }
        ranges.push(("inclusive", min, max));
        ranges.push(("inclusive", min + 1, max));
        ranges.push(("inclusive", min, max - 1));
        ranges.push(("range", min, max));
        ranges.push(("full", 0, 0));
        for b in [1i128, 2, 3, 1 << 8, max, max - 1] {
            ranges.push(("to", 0, b));
            ranges.push(("to_inclusive", 0, b));
        }
        ranges.push(("to_inclusive", 0, 0));
        for _ in 0..40 {
            let a = min + (($rng.u64() as i128).rem_euclid(max - min));
            let b = a + 1 + (($rng.u64() as i128).rem_euclid(max - a).max(0));
            if b <= max { ranges.push(("range", a, b)); ranges.push(("inclusive", a, b)); }
        }
        for (form, a, b) in ranges {
            let len: u128 = match form { "range" => (b - a) as u128, "inclusive" => (b - a) as u128 + 1, "to" => b as u128, "to_inclusive" => b as u128 + 1, _ => 0 };
            let raws = raws_for(len, $rng);
            let r = catch(|| raws.iter().map(|&raw| match form {
                "range" => ((a as $t)..(b as $t)).gen_from_u64(raw) as i128,
                "inclusive" => ((a as $t)..=(b as $t)).gen_from_u64(raw) as i128,
                "to" => (..(b as $t)).gen_from_u64(raw) as i128,
                "to_inclusive" => (..=(b as $t)).gen_from_u64(raw) as i128,
                _ => { let v: $t = (..).gen_from_u64(raw); v as i128 }
            }).collect::<Vec<i128>>());
            let mut ev = json!({"ev": "draws", "op": "gen_from_u64", "ty": $name, "signed": $signed, "bits": bits, "form": form, "a": bi(a), "b": bi(b)});
            match r {
                Ok(vals) => { $draws += vals.len() as u64; ev["vals"] = json!(vals.iter().map(|&v| bi(v)).collect::<Vec<_>>()); }
                Err(p) => ev["panic"] = json!(p),
            }
            $tw.ev(ev);
        }
        // reachability on small ranges: consecutive raws cover every value
        for (a, len) in [(min, 1i128), (0, 2), (-1, 3), (max - 4, 4), (5, 8), (min + 1, 16), (0, 13)] {
            if a < min || a + len - 1 > max { continue; }
            for form in ["range", "inclusive"] {
                let b = if form == "range" { a + len } else { a + len - 1 };
                if b > max { continue; }
                let r = catch(|| (0..(4 * len as u64)).map(|raw| if form == "range" { ((a as $t)..(b as $t)).gen_from_u64(raw) as i128 } else { ((a as $t)..=(b as $t)).gen_from_u64(raw) as i128 }).collect::<Vec<i128>>());
                let mut ev = json!({"ev": "reach", "op": "gen_from_u64", "ty": $name, "signed": $signed, "bits": bits, "form": form, "a": bi(a), "b": bi(b)});
                match r {
                    Ok(vals) => ev["vals"] = json!(vals.iter().map(|&v| bi(v)).collect::<Vec<_>>()),
                    Err(p) => ev["panic"] = json!(p),
                }
                $tw.ev(ev);
            }
        }
    }};
}

pub fn record(seed: u64, tier: &str, out: &str) {
    let thorough = tier == "thorough";
    let mut rng = Rng::new(seed ^ 0xC14);
    let mut t = TraceWriter::create(out);
    let mut draws = 0u64;
    let step = if thorough { 1 } else { 2 };
    small_type!(i8, t, "i8", true, &mut rng, draws, step);
    small_type!(u8, t, "u8", false, &mut rng, draws, step);
    wide_type!(i16, t, "i16", true, &mut rng, draws);
    wide_type!(u16, t, "u16", false, &mut rng, draws);
    wide_type!(i32, t, "i32", true, &mut rng, draws);
    wide_type!(u32, t, "u32", false, &mut rng, draws);
    wide_type!(i64, t, "i64", true, &mut rng, draws);
    wide_type!(u64, t, "u64", false, &mut rng, draws);
    wide_type!(isize, t, "isize", true, &mut rng, draws);
    wide_type!(usize, t, "usize", false, &mut rng, draws);
    // half-open float ranges
    let franges: Vec<(f64, f64)> = vec![(0.0, 1.0), (1.0, 2.0), (10.0, 15.0), (-15.0, -10.0), (-1e-300, 1e-300), (0.0, f64::MAX / 2.0),
                                        (-0.0, 5e-324), (1e300, 1.0000000000000002e300), (-1.0, 1.0), (0.1, 0.7), (-3.5, 0.0), (4503599627370496.0, 4503599627370497.0),
                                        // finite ranges whose length is not finite (end - start overflows)
                                        (-1e308, 1e308), (-f64::MAX, f64::MAX), (-f64::MAX, 1.0), (-1.5e308, 1e300), (-f64::MAX, 0.0), (0.0, f64::MAX),
                                        (-5e-324, 5e-324), (f64::MIN_POSITIVE, 2.0 * f64::MIN_POSITIVE)];
    for (a, b) in franges {
        let mut raws: Vec<u64> = vec![0, 1, u64::MAX, u64::MAX - 1, u64::MAX - 2, u64::MAX - 1023, u64::MAX - 1024, u64::MAX - 2047, u64::MAX - 2048, u64::MAX - 4096,
                                      1023, 1024, 2047, 2048, 2049, 4095, 1 << 53, (1 << 53) - 1, (1 << 53) + 1, 1 << 63, (1 << 63) + 1, (1u64 << 63) - 1, 1 << 62, 3 << 62];
        for k in 1..=20u64 {
            raws.push(k.wrapping_mul(1 << 53).wrapping_sub(1));
            raws.push(u64::MAX - k * 511);
        }
        for _ in 0..(if thorough { 6000 } else { 60 }) {
            raws.push(rng.u64());
        }
        let r = catch(|| raws.iter().map(|&raw| (a..b).gen_from_u64(raw)).collect::<Vec<f64>>());
        let mut ev = json!({"ev": "fdraws", "op": "gen_from_u64(f64)", "start": fbits(a), "end": fbits(b), "start_text": format!("{:e}", a), "end_text": format!("{:e}", b),
                            "raws": raws.iter().map(|r| r.to_string()).collect::<Vec<_>>()});
        match r {
            Ok(vals) => {
                draws += vals.len() as u64;
                ev["vals"] = json!(vals.iter().map(|&v| fbits(v)).collect::<Vec<_>>());
                ev["vals_text"] = json!(vals.iter().map(|v| format!("{:e}", v)).collect::<Vec<_>>());
            }
            Err(p) => ev["panic"] = json!(p),
        }
        t.ev(ev);
    }
    // determinism: equal seeds and copies give equal streams
    for s in [0u64, 1, 42, u64::MAX, rng.u64(), rng.u64()] {
        let mut a = LibRng::from_seed(s);
        let mut b = LibRng::from_seed(s);
        let va: Vec<i64> = (0..50).map(|_| a.next(-1000i64..1000)).collect();
        let mut c = b; // Copy
        let vb: Vec<i64> = (0..50).map(|_| b.next(-1000i64..1000)).collect();
        let vc: Vec<i64> = (0..50).map(|_| c.next(-1000i64..1000)).collect();
        t.ev(json!({"ev": "streams", "op": "next", "seed": s.to_string(), "a": va, "b": vb, "c": vc}));
    }
    // shuffles: permutation property, with repeated elements
    for k in 0..60usize {
        let inp: Vec<i64> = (0..k % 12).map(|i| (i as i64 * 7) % 5).collect();
        let mut out_v = inp.clone();
        let mut g = LibRng::from_seed(rng.u64());
        let r = catch(|| g.shuffle(&mut out_v));
        let mut ev = json!({"ev": "shuffle", "op": "shuffle", "inp": inp, "out": out_v});
        if let Err(p) = r { ev["panic"] = json!(p); }
        t.ev(ev);
    }
    // every arrangement of a short slice is reached with near-equal frequency over many seeds
    let plan: Vec<(usize, u64)> = if thorough { vec![(2, 20_000), (3, 30_000), (4, 100_000), (5, 100_000), (6, 500_000)] } else { vec![(2, 10_000), (3, 20_000), (4, 100_000), (5, 100_000)] };
    for (k, seeds) in plan {
        let mut counts: HashMap<Vec<i64>, u64> = HashMap::new();
        for _ in 0..seeds {
            let mut g = LibRng::from_seed(rng.u64());
            let mut v: Vec<i64> = (1..=k as i64).collect();
            g.shuffle(&mut v);
            *counts.entry(v).or_insert(0) += 1;
        }
        let mut arrs: Vec<(Vec<i64>, u64)> = counts.into_iter().collect();
        arrs.sort();
        t.ev(json!({"ev": "hist", "op": "shuffle", "k": k, "seeds": seeds, "arrs": arrs.iter().map(|a| a.0.clone()).collect::<Vec<_>>(),
                    "counts": arrs.iter().map(|a| a.1).collect::<Vec<_>>()}));
    }
    // consecutive draws from a small range are not periodic
    for len in [2i64, 3, 4, 8, 16, 256] {
        let mut seeds = vec![42u64, 1, rng.u64()];
        if thorough {
            seeds.extend((0..37).map(|_| rng.u64()));
        }
        for s in seeds {
            let mut g = LibRng::from_seed(s);
            let vals: Vec<i64> = (0..4096).map(|_| g.next(0..len)).collect();
            t.ev(json!({"ev": "period", "op": "next", "range_len": len, "seed": s.to_string(), "vals": vals}));
        }
        // the other range forms of the same small range
        let s = rng.u64();
        let mut g = LibRng::from_seed(s);
        let vals: Vec<i64> = (0..4096).map(|_| g.next(0..=(len - 1))).collect();
        t.ev(json!({"ev": "period", "op": "next", "form": "inclusive", "range_len": len, "seed": s.to_string(), "vals": vals}));
        let mut g = LibRng::from_seed(s);
        let vals: Vec<i64> = (0..4096).map(|_| { let x: u16 = g.next(..(len as u16)); x as i64 }).collect();
        t.ev(json!({"ev": "period", "op": "next", "form": "to", "range_len": len, "seed": s.to_string(), "vals": vals}));
        let mut g = LibRng::from_seed(s);
        let vals: Vec<i64> = (0..4096).map(|_| { let x: u8 = g.next(..=((len - 1) as u8)); x as i64 }).collect();
        t.ev(json!({"ev": "period", "op": "next", "form": "to_inclusive", "range_len": len, "seed": s.to_string(), "vals": vals}));
    }
    // the full range of the 8-bit types is a small range too
    for s in [42u64, rng.u64()] {
        let mut g = LibRng::from_seed(s);
        let vals: Vec<i64> = (0..4096).map(|_| { let x: u8 = g.next(..); x as i64 }).collect();
        t.ev(json!({"ev": "period", "op": "next", "form": "full u8", "range_len": 256, "seed": s.to_string(), "vals": vals}));
        let mut g = LibRng::from_seed(s);
        let vals: Vec<i64> = (0..4096).map(|_| { let x: i8 = g.next(..); x as i64 }).collect();
        t.ev(json!({"ev": "period", "op": "next", "form": "full i8", "range_len": 256, "seed": s.to_string(), "vals": vals}));
    }
    let ev = t.finish();
    println!("{}", json!({"events": ev, "runs": 1, "draws": draws, "nontrivial": draws}));
}
