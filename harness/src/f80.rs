//! C18 — rlib_f80::f80 (x87 extended precision).  record: arithmetic on boundary / random f64 bit patterns and
//! chains needing all 64 significand bits, conversions, and all comparison relations, for F80Trace.tla.
//! Values are decoded from their bytes by bit slicing only.
use crate::util::*;
use rlib_f80::f80;
use serde_json::{json, Value};

fn bytes_of(x: &f80) -> [u8; 10] {
    // f80 is a 16-byte aligned wrapper around [u8; 10]
    let p = x as *const f80 as *const u8;
    let mut b = [0u8; 10];
    for (i, v) in b.iter_mut().enumerate() {
        *v = unsafe { *p.add(i) };
    }
    b
}

fn dec80(x: &f80) -> Value {
    let b = bytes_of(x);
    let mant = u64::from_le_bytes([b[0], b[1], b[2], b[3], b[4], b[5], b[6], b[7]]);
    let se = u16::from_le_bytes([b[8], b[9]]);
    let neg = se >> 15 == 1;
    let exp = (se & 0x7FFF) as i64;
    if exp == 0x7FFF {
        if mant << 1 == 0 {
            json!({"c": "inf", "neg": neg, "e": 0, "m": []})
        } else {
            json!({"c": "nan", "neg": false, "e": 0, "m": []})
        }
    } else if exp == 0 && mant == 0 {
        json!({"c": "zero", "neg": neg, "e": 0, "m": []})
    } else if mant >> 63 == 0 {
        json!({"c": "den", "neg": neg, "e": 0, "m": []})
    } else {
        json!({"c": "fin", "neg": neg, "e": exp - 16383 - 63, "m": limbs(mant as u128)})
    }
}

fn dec64(d: f64) -> Value {
    let bits = d.to_bits();
    let neg = bits >> 63 == 1;
    let exp = ((bits >> 52) & 0x7FF) as i64;
    let frac = bits & ((1u64 << 52) - 1);
    if exp == 0x7FF {
        if frac == 0 { json!({"c": "inf", "neg": neg, "e": 0, "m": []}) } else { json!({"c": "nan", "neg": false, "e": 0, "m": []}) }
    } else if exp == 0 && frac == 0 {
        json!({"c": "zero", "neg": neg, "e": 0, "m": []})
    } else if exp == 0 {
        json!({"c": "fin", "neg": neg, "e": -1074, "m": limbs(frac as u128)})
    } else {
        json!({"c": "fin", "neg": neg, "e": exp - 1075, "m": limbs((frac | 1u64 << 52) as u128)})
    }
}

fn boundary(thorough: bool) -> Vec<f64> {
    let mut v: Vec<f64> = vec![0.0, -0.0, 1.0, -1.0, 2.0, 0.5, 3.0, 0.1, -0.1, 1.0 / 3.0, 10.0, 1e16, 1e-16, f64::MAX, f64::MIN_POSITIVE, -f64::MAX,
                               f64::INFINITY, f64::NEG_INFINITY, f64::NAN, 5e-324, -5e-324, 2.2250738585072009e-308, 4503599627370496.0, 9007199254740993.0,
                               9007199254740992.0, 1.0000000000000002, 0.9999999999999999, 1.9999999999999998, 6.0, 7.0, 1e300, 1e-300];
    for bits in [0x3FEFFFFFFFFFFFFFu64, 0x3FF0000000000001, 0x400FFFFFFFFFFFFF, 0x7FEFFFFFFFFFFFFE, 0x0010000000000001, 0x000FFFFFFFFFFFFF, 0x0000000000000002,
                 0x3FD5555555555555, 0x3FB999999999999A, 0x4340000000000001, 0x433FFFFFFFFFFFFF, 0xBFEFFFFFFFFFFFFF, 0x8010000000000000, 0x3CA0000000000000, 0x3CB0000000000001] {
        v.push(f64::from_bits(bits));
    }
    if thorough {
        for k in [-1074i32, -1022, -1021, -537, -64, -63, -53, -52, -1, 1, 52, 53, 63, 64, 537, 1022, 1023] {
            let p = (2.0f64).powi(k);
            v.push(p);
            v.push(-p);
            v.push(f64::from_bits(p.to_bits() + 1));
            if p.to_bits() > 0 {
                v.push(f64::from_bits(p.to_bits() - 1));
            }
        }
    }
    v
}

fn apply(op: &str, x: f80, y: f80) -> f80 {
    match op {
        "add" => x + y,
        "sub" => x - y,
        "mul" => x * y,
        "div" => x / y,
        "add_assign" => { let mut z = x; z += y; z }
        "sub_assign" => { let mut z = x; z -= y; z }
        "mul_assign" => { let mut z = x; z *= y; z }
        "div_assign" => { let mut z = x; z /= y; z }
        _ => -x,
    }
}

fn text(x: &f80) -> String {
    format!("{:e}", f64::from(*x))
}

pub fn record(seed: u64, tier: &str, out: &str) {
    let thorough = tier == "thorough";
    let mut rng = Rng::new(seed ^ 0xC18);
    let mut t = TraceWriter::create(out);
    // the crate asks for this call at the beginning of main (a no-op on Linux, where the default precision control
    // is already the 64-bit significand)
    rlib_f80::f80_init();
    let vals = boundary(thorough);
    // conversions: f64 -> f80 -> f64 on the boundary set and random bit patterns
    let mut convs: Vec<f64> = vals.clone();
    for _ in 0..(if thorough { 3000 } else { 300 }) {
        convs.push(f64::from_bits(rng.u64()));
    }
    for d in &convs {
        let x = f80::from(*d);
        let back = f64::from(x);
        t.ev(json!({"ev": "conv", "op": "from", "d": dec64(*d), "x": dec80(&x), "back": dec64(back), "text": format!("{:e}", d)}));
    }
    // all comparison relations on all pairs (boundary set plus values that need the full 64-bit significand)
    let mut cmpvals: Vec<f80> = vals.iter().map(|d| f80::from(*d)).collect();
    let third = f80::from(1.0) / f80::from(3.0);
    cmpvals.push(third);
    cmpvals.push(third + f80::from(1.0));
    cmpvals.push(f80::from(1.0) + f80::from(1e-19)); // rounds to 1 + 2^-63
    cmpvals.push(-third);
    // values no f64 can hold (only reachable as intermediate results): far below the f64 subnormals, far above
    // f64::MAX, and neighbours of 1 that round to 1 in f64 -- abs / min / max / the relations must not go through f64
    let (tiny, huge) = (f80::from(1e-300) * f80::from(1e-300), f80::from(1e300) * f80::from(1e300));
    let sub4 = f80::from(5e-324) / f80::from(4.0);
    let eps64 = f80::from(1.0) / f80::from(18446744073709551616.0); // 2^-64
    for x in [tiny, -tiny, huge, -huge, sub4, -sub4, tiny * tiny, -(tiny * tiny), huge * f80::from(3.0), f80::from(-1e-300) * f80::from(1e-300),
              f80::from(1.0) - eps64, -(f80::from(1.0) - eps64), f80::from(f64::MAX) + f80::from(f64::MAX) / f80::from(9007199254740992.0),
              -(f80::from(f64::MIN_POSITIVE) / f80::from(3.0))] {
        cmpvals.push(x);
    }
    let step = if thorough { 2 } else { 2 };
    let special = cmpvals[..6].to_vec(); // 0, -0, 1, -1, 2, 0.5: always against everything
    for (i, x) in cmpvals.iter().enumerate() {
        let ys: Vec<f80> = if i < 6 { cmpvals.clone() } else { special.iter().cloned().chain(cmpvals.iter().skip(i % step).step_by(step).cloned()).collect() };
        for y in ys.iter() {
            let pc = match x.partial_cmp(y) { None => "none", Some(std::cmp::Ordering::Less) => "lt", Some(std::cmp::Ordering::Equal) => "eq", Some(_) => "gt" };
            t.ev(json!({"ev": "cmp", "op": "comparisons", "x": dec80(x), "y": dec80(y), "xt": text(x), "yt": text(y),
                        "lt": x < y, "le": x <= y, "gt": x > y, "ge": x >= y, "pc": pc, "eq": x == y, "ne": x != y,
                        "min": dec80(&x.min(*y)), "max": dec80(&x.max(*y))}));
        }
        t.ev(json!({"ev": "abs", "op": "abs", "x": dec80(x), "r": dec80(&x.abs()), "xt": text(x)}));
        // the very same object on both sides of the relations (x == x is the usual NaN test)
        {
            let r: &f80 = x;
            let pc = match r.partial_cmp(r) { None => "none", Some(std::cmp::Ordering::Less) => "lt", Some(std::cmp::Ordering::Equal) => "eq", Some(_) => "gt" };
            #[allow(clippy::eq_op)]
            t.ev(json!({"ev": "cmp", "op": "comparisons", "x": dec80(r), "y": dec80(r), "xt": text(r), "yt": text(r), "same_object": true,
                        "lt": r < r, "le": r <= r, "gt": r > r, "ge": r >= r, "pc": pc, "eq": r == r, "ne": r != r,
                        "min": dec80(&r.min(*r)), "max": dec80(&r.max(*r))}));
        }
    }
    // arithmetic: all pairs of the boundary set for + - * /, assigning forms, neg
    let ops = ["add", "sub", "mul", "div"];
    let stride = if thorough { 3 } else { 3 };
    for (i, a) in vals.iter().enumerate() {
        for (j, b) in vals.iter().enumerate() {
            if (i + j) % stride != 0 {
                continue;
            }
            let (x, y) = (f80::from(*a), f80::from(*b));
            for (k, op) in ops.iter().enumerate() {
                let name = if (i + j + k) % 5 == 0 { format!("{}_assign", op) } else { op.to_string() };
                let r = apply(&name, x, y);
                t.ev(json!({"ev": "arith", "op": name, "x": dec80(&x), "y": dec80(&y), "r": dec80(&r)}));
                if (i + j) % 7 == 0 {
                    t.ev(json!({"ev": "narrow", "op": "into_f64", "x": dec80(&r), "d": dec64(f64::from(r))}));
                }
            }
        }
        let x = f80::from(*a);
        t.ev(json!({"ev": "arith", "op": "neg", "x": dec80(&x), "y": dec80(&x), "r": dec80(&(-x))}));
    }
    // random bit patterns and chains of 2-4 operations (intermediate results use all 64 significand bits)
    let n = if thorough { 6_000 } else { 1_200 };
    for _ in 0..n {
        let rb = |rng: &mut Rng| -> f64 {
            match rng.below(5) {
                0 => f64::from_bits(rng.u64()),
                1 => (rng.u64() >> 11) as f64 / (1u64 << 53) as f64 * 8.0 - 4.0,
                2 => f64::from_bits((rng.u64() & 0x800F_FFFF_FFFF_FFFF) | ((1023 - 3 + rng.below(7)) << 52)),
                _ => f64::from_bits((rng.u64() & 0x800F_FFFF_FFFF_FFFF) | ((1023 - 40 + rng.below(80)) << 52)),
            }
        };
        let mut acc = f80::from(rb(&mut rng));
        for _ in 0..(2 + rng.below(3)) {
            let y = if rng.chance(1, 4) { acc } else { f80::from(rb(&mut rng)) };
            let op = ops[rng.usize(4)];
            let r = apply(op, acc, y);
            t.ev(json!({"ev": "arith", "op": op, "x": dec80(&acc), "y": dec80(&y), "r": dec80(&r)}));
            if rng.chance(1, 4) {
                t.ev(json!({"ev": "narrow", "op": "into_f64", "x": dec80(&r), "d": dec64(f64::from(r))}));
            }
            acc = r;
        }
    }
    let ev = t.finish();
    println!("{}", json!({"events": ev, "runs": 1, "nontrivial": ev}));
}
